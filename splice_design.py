#!/usr/bin/env python3
# DESIGN.md section 8 ("As built") is kept in design8.md; this replaces the section in DESIGN.md.
import re
d=open('/verif/DESIGN.md').read(); s8=open('/verif/design8.md').read()
a=d.index('## 8. As built'); b=d.index('## Appendix A')
body=s8 if s8.lstrip().startswith('## 8. As built') else '## 8. As built\n\n'+s8
open('/verif/DESIGN.md','w').write(d[:a]+body.rstrip('\n')+'\n\n---\n\n'+d[b:])
