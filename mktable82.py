#!/usr/bin/env python3
"""Prints 'id | functions | obligations' from the evidence files (for DESIGN.md 8.2)."""
import json, glob, os
for f in sorted(glob.glob(os.path.join(os.path.dirname(os.path.abspath(__file__)), 'evidence', 'C*.json'))):
    d = json.load(open(f)); c = d['coverage']
    print(d['property_id'], len(c.get('functions_under_contract', [])), c.get('obligations'), c.get('discharged'), round(d.get('wall_s', 0)))
