package main

// Engine: program loading, contract lookup, shared tables.

import (
	"fmt"
	"go/types"
	"os"
	"path/filepath"
	"sort"
	"strings"
	"sync"

	"golang.org/x/tools/go/packages"
	"golang.org/x/tools/go/ssa"
	"golang.org/x/tools/go/ssa/ssautil"
)

const modulePath = "github.com/cloudwego/gopkg"
const specPkgPath = modulePath + "/internal/verifspec"

type Engine struct {
	repo     string
	prog     *ssa.Program
	pkgs     map[string]*ssa.Package
	tpkgs    map[string]*packages.Package
	specs    map[string]*PkgSpec
	ar       *Arith
	funcIDs  map[*ssa.Function]int
	funcByID map[int]*ssa.Function
	typeTags map[string]int
	tagTypes []types.Type
	nfresh   int
	mu       sync.Mutex

	obligations []*Obligation
	curFunc     string
	notes       []string // engine-level remarks (unsupported constructs etc.)
	trustedUsed map[string]bool
	assumptions map[string]bool

	loopInfo map[*ssa.Function]*loopInfo
	initDone map[string]*initResult
	tier     string
	verbose  bool
	maxPaths int
	fuel     int

	ifaceAsserts   map[string]*types.Interface
	contentUFs     map[string]bool // uninterpreted functions of byte-string contents (ufcontent)
	mutableGlobals map[*ssa.Global]bool
	globalWriters  map[*ssa.Global][]string
	recCache       map[*ssa.Function]bool
	ufSpecs        map[string]*ufSpec
	curInit        *Exec
	curExec        *Exec
	lemmasUsed     map[string]bool
	unfoldCache    map[string]*Term
	hintTerms      map[*Term]bool
	ufFresh        int
	smtMu          sync.Mutex
}

func NewEngine(repo string) (*Engine, error) {
	e := &Engine{repo: repo, pkgs: map[string]*ssa.Package{}, tpkgs: map[string]*packages.Package{}, specs: map[string]*PkgSpec{},
		funcIDs: map[*ssa.Function]int{}, funcByID: map[int]*ssa.Function{}, typeTags: map[string]int{},
		trustedUsed: map[string]bool{}, assumptions: map[string]bool{}, loopInfo: map[*ssa.Function]*loopInfo{}, initDone: map[string]*initResult{}, maxPaths: 20000, fuel: 2,
		ifaceAsserts: map[string]*types.Interface{}, contentUFs: map[string]bool{}, recCache: map[*ssa.Function]bool{}, ufSpecs: map[string]*ufSpec{}, lemmasUsed: map[string]bool{}, unfoldCache: map[string]*Term{}, hintTerms: map[*Term]bool{}}
	e.ar = &Arith{Mode: ModeBV}
	cfg := &packages.Config{Mode: packages.LoadAllSyntax, Dir: repo, BuildFlags: []string{"-tags=verif"},
		Env: append(os.Environ(), "GOFLAGS=-mod=mod", "GOPROXY=off", "GOSUMDB=off", "GOTOOLCHAIN=local", "GOOS=linux", "GOARCH=amd64")}
	pkgs, err := packages.Load(cfg, "./...")
	if err != nil {
		return nil, err
	}
	var errs []string
	packages.Visit(pkgs, nil, func(p *packages.Package) {
		for _, e := range p.Errors {
			errs = append(errs, e.Error())
		}
	})
	if len(errs) > 0 {
		return nil, fmt.Errorf("package load errors:\n%s", strings.Join(errs, "\n"))
	}
	prog, _ := ssautil.AllPackages(pkgs, ssa.NaiveForm|ssa.GlobalDebug)
	prog.Build()
	e.prog = prog
	packages.Visit(pkgs, nil, func(p *packages.Package) {
		e.tpkgs[p.PkgPath] = p
		if sp := prog.Package(p.Types); sp != nil {
			e.pkgs[p.PkgPath] = sp
		}
	})
	// contract files: every *_verif.go of module packages
	for _, p := range pkgs {
		if !strings.HasPrefix(p.PkgPath, modulePath) {
			continue
		}
		ps := newPkgSpec(p.PkgPath)
		for _, f := range p.GoFiles {
			if strings.HasSuffix(f, "_verif.go") {
				if err := parseContractFile(f, p.PkgPath, ps); err != nil {
					return nil, err
				}
				ps.Files = append(ps.Files, f)
			}
		}
		e.specs[p.PkgPath] = ps
	}
	return e, nil
}

func (e *Engine) fresh(prefix string, s *Sort) *Term {
	e.nfresh++
	return Var(fmt.Sprintf("%s!%d", prefix, e.nfresh), s)
}

func (e *Engine) note(f string, a ...interface{}) {
	s := fmt.Sprintf(f, a...)
	for _, n := range e.notes {
		if n == s {
			return
		}
	}
	e.notes = append(e.notes, s)
}

func (e *Engine) typeTag(t types.Type) int {
	k := types.TypeString(t, nil)
	if id, ok := e.typeTags[k]; ok {
		return id
	}
	id := len(e.typeTags) + 1
	e.typeTags[k] = id
	e.tagTypes = append(e.tagTypes, t)
	return id
}

// funcKey computes the contract key of an SSA function: "Recv.Name" or "Name".
func funcKey(f *ssa.Function) string {
	if f.Origin() != nil {
		f = f.Origin()
	}
	name := f.Name()
	if recv := f.Signature.Recv(); recv != nil {
		t := recv.Type()
		if p, ok := t.(*types.Pointer); ok {
			t = p.Elem()
		}
		tn := ""
		switch n := t.(type) {
		case *types.Named:
			tn = n.Obj().Name()
		case *types.Alias:
			tn = n.Obj().Name()
		default:
			tn = t.String()
		}
		return tn + "." + name
	}
	return name
}

func funcPkgPath(f *ssa.Function) string {
	if f.Origin() != nil {
		f = f.Origin()
	}
	if f.Pkg != nil {
		return f.Pkg.Pkg.Path()
	}
	if recv := f.Signature.Recv(); recv != nil {
		t := recv.Type()
		if p, ok := t.(*types.Pointer); ok {
			t = p.Elem()
		}
		if n, ok := t.(*types.Named); ok && n.Obj().Pkg() != nil {
			return n.Obj().Pkg().Path()
		}
	}
	if f.Object() != nil && f.Object().Pkg() != nil {
		return f.Object().Pkg().Path()
	}
	return ""
}

func (e *Engine) shortPkg(path string) string {
	return filepath.Base(path)
}

func (e *Engine) qualName(f *ssa.Function) string {
	return e.shortPkg(funcPkgPath(f)) + "." + funcKey(f)
}

// specFor finds the contract of a function: a `func` block in its own package, or an
// `extern` block in any module package.
func (e *Engine) specFor(f *ssa.Function) *FuncSpec {
	pp := funcPkgPath(f)
	key := funcKey(f)
	if ps := e.specs[pp]; ps != nil {
		if s := ps.Funcs[key]; s != nil {
			return s
		}
	}
	full := pp + "." + key
	var paths []string
	for p := range e.specs {
		paths = append(paths, p)
	}
	sort.Strings(paths)
	for _, p := range paths {
		if s := e.specs[p].Externs[full]; s != nil {
			return s
		}
	}
	return nil
}

func (e *Engine) ifaceSpec(recv types.Type, method string) *FuncSpec {
	name := ""
	pp := ""
	switch n := recv.(type) {
	case *types.Named:
		name = n.Obj().Name()
		if n.Obj().Pkg() != nil {
			pp = n.Obj().Pkg().Path()
		}
	case *types.Alias:
		name = n.Obj().Name()
		if n.Obj().Pkg() != nil {
			pp = n.Obj().Pkg().Path()
		}
	case *types.TypeParam:
		return e.ifaceSpec(n.Constraint(), method)
	}
	if it, ok := recv.Underlying().(*types.Interface); ok && name == "" && it.NumMethods() > 0 {
		name = "interface"
	}
	if name == "" {
		return nil
	}
	var paths []string
	for p := range e.specs {
		paths = append(paths, p)
	}
	sort.Strings(paths)
	// own package first
	if ps := e.specs[pp]; ps != nil {
		if s := ps.Ifaces[name+"."+method]; s != nil {
			return s
		}
	}
	for _, p := range paths {
		if pp == "" {
			if s := e.specs[p].Ifaces[name+"."+method]; s != nil {
				return s
			}
		}
		if s := e.specs[p].Ifaces[pp+"."+name+"."+method]; s != nil {
			return s
		}
		if s := e.specs[p].Ifaces[filepath.Base(pp)+"."+name+"."+method]; s != nil {
			return s
		}
	}
	return nil
}

// findFunc resolves a contract key within a package to its SSA function.
func (e *Engine) findFunc(pkgPath, key string) *ssa.Function {
	sp := e.pkgs[pkgPath]
	if sp == nil {
		return nil
	}
	if i := strings.Index(key, "."); i >= 0 {
		tn, mn := key[:i], key[i+1:]
		m := sp.Members[tn]
		t, ok := m.(*ssa.Type)
		if !ok {
			return nil
		}
		for _, ty := range []types.Type{t.Type(), types.NewPointer(t.Type())} {
			ms := e.prog.MethodSets.MethodSet(ty)
			for j := 0; j < ms.Len(); j++ {
				if ms.At(j).Obj().Name() == mn {
					fn := e.prog.MethodValue(ms.At(j))
					if fn == nil {
						// generic type: look up declared method on origin
						if named, ok := t.Type().(*types.Named); ok {
							for k := 0; k < named.NumMethods(); k++ {
								if named.Method(k).Name() == mn {
									return e.prog.FuncValue(named.Method(k))
								}
							}
						}
						return nil
					}
					// skip promoted wrappers: want the declared function
					if fn.Synthetic != "" && fn.Origin() == nil {
						if obj, ok := ms.At(j).Obj().(*types.Func); ok {
							if d := e.prog.FuncValue(obj); d != nil {
								return d
							}
						}
					}
					return fn
				}
			}
		}
		if named, ok := t.Type().(*types.Named); ok {
			for k := 0; k < named.NumMethods(); k++ {
				if named.Method(k).Name() == mn {
					return e.prog.FuncValue(named.Method(k))
				}
			}
		}
		return nil
	}
	if f, ok := sp.Members[key].(*ssa.Function); ok {
		return f
	}
	return nil
}
