package main

// Recursive spec functions: uninterpreted symbols with definitional unfolding.

import (
	"strings"
	"go/token"
	"fmt"
	"go/types"
	"sort"

	"golang.org/x/tools/go/ssa"
)

type ufSpec struct {
	name    string
	fn      *ssa.Function
	formals []*Term // flattened formal parameters
	body    *Term   // definition over the formals (may mention other spec UFs)
	sort    *Sort
	rtype   types.Type
	building bool
}

func (e *Engine) isRecursive(fn *ssa.Function) bool {
	if r, ok := e.recCache[fn]; ok {
		return r
	}
	// fn is recursive if it can reach itself through static calls
	seen := map[*ssa.Function]bool{}
	var reach func(f *ssa.Function) bool
	reach = func(f *ssa.Function) bool {
		for _, b := range f.Blocks {
			for _, in := range b.Instrs {
				if c, ok := in.(*ssa.Call); ok {
					if g, ok := c.Common().Value.(*ssa.Function); ok {
						if g == fn {
							return true
						}
						if !seen[g] && g.Pkg == fn.Pkg {
							seen[g] = true
							if reach(g) {
								return true
							}
						}
					}
				}
			}
		}
		return false
	}
	r := reach(fn)
	e.recCache[fn] = r
	return r
}

func (e *Engine) ufName(fn *ssa.Function) string {
	return fmt.Sprintf("spec_%s_%s", fn.Pkg.Pkg.Name(), fn.Name())
}

// flattenSpecArg: how a Go value is passed to an uninterpreted spec function
func (x *Exec) flattenSpecArg(st *State, heap map[string]*Term, t types.Type, v Val) []*Term {
	switch u := v.(type) {
	case VScalar:
		return []*Term{u.T}
	case VSlice:
		if !isByteSlice(t) {
			x.fail("spec functions take []byte slices only")
		}
		return []*Term{st.regionArrIn(heap, byteType, u.Reg), u.Off, u.Len}
	case VString:
		return []*Term{u.Arr, u.Off, u.Len}
	}
	x.fail("unsupported spec function argument %T", v)
	return nil
}

func (x *Exec) ufCall(st *State, heap map[string]*Term, fn *ssa.Function, args []Val) Val {
	e := x.e
	name := e.ufName(fn)
	var flat []*Term
	for i, a := range args {
		flat = append(flat, x.flattenSpecArg(st, heap, fn.Signature.Params().At(i).Type(), a)...)
	}
	rt := fn.Signature.Results().At(0).Type()
	ls := e.leaves(rt)
	if len(ls) != 1 {
		x.fail("recursive spec function %s must return a scalar", fn.Name())
	}
	key := fmt.Sprintf("%s#%d", name, e.ar.Mode)
	if _, ok := e.ufSpecs[key]; !ok {
		e.ufSpecs[key] = &ufSpec{name: name, fn: fn, sort: ls[0].S, rtype: rt}
	}
	return e.fromLeaves(rt, []*Term{App(name, ls[0].S, flat...)})
}

// ufBody builds (once per mode) the definition of a recursive spec function over formals.
func (e *Engine) ufBody(u *ufSpec) {
	if u.body != nil || u.building {
		return
	}
	u.building = true
	defer func() { u.building = false }()
	savedFresh := e.nfresh
	if e.ufFresh == 0 {
		e.ufFresh = 500000
	}
	e.nfresh = e.ufFresh
	defer func() { e.ufFresh = e.nfresh; e.nfresh = savedFresh }()
	x := &Exec{e: e, top: u.fn, spec: &FuncSpec{Key: u.fn.Name(), Loops: map[int]*LoopSpec{}}, qname: "spec." + u.fn.Name()}
	x.pure = 1
	x.ufDirect = u.fn
	st := &State{e: e, heap: map[string]*Term{}, cells: map[cellKey]Val{}}
	stExt[st] = &stateExt{}
	defer delete(stExt, st)
	I := e.ar.I()
	var args []Val
	var formals []*Term
	sig := u.fn.Signature
	for i := 0; i < sig.Params().Len(); i++ {
		p := sig.Params().At(i)
		pn := fmt.Sprintf("%s$%s", u.name, p.Name())
		switch {
		case isByteSlice(p.Type()):
			arr := Var(pn+".arr", ArraySort(I, e.ar.ByteSort()))
			off := Var(pn+".off", I)
			ln := Var(pn+".len", I)
			reg := Var(pn+".reg", I)
			nm := memName(byteType, "")
			m := st.heapGet(nm, e.memSort(e.ar.ByteSort()))
			st.heap[nm] = Store(m, reg, arr)
			args = append(args, VSlice{Reg: reg, Off: off, Len: ln, Cap: ln})
			formals = append(formals, arr, off, ln)
		case isString(p.Type()):
			arr := Var(pn+".arr", ArraySort(I, e.ar.ByteSort()))
			off := Var(pn+".off", I)
			ln := Var(pn+".len", I)
			args = append(args, VString{Reg: e.ar.IConst(0), Arr: arr, Off: off, Len: ln})
			formals = append(formals, arr, off, ln)
		default:
			ls := e.leaves(p.Type())
			if len(ls) != 1 {
				panic(abortPath{"unsupported spec function parameter type " + p.Type().String()})
			}
			v := Var(pn, ls[0].S)
			args = append(args, e.fromLeaves(p.Type(), []*Term{v}))
			formals = append(formals, v)
		}
	}
	outs := x.runPure(st, st.heap, u.fn, args)
	if len(outs) == 0 {
		panic(abortPath{"spec function " + u.fn.Name() + " has no return path"})
	}
	r := mergeOutcomes(e, u.rtype, outs, 0)
	u.formals = formals
	u.body = e.toLeaves(u.rtype, r)[0]
}

// unfoldSpecs adds definitional equations for the spec-function applications occurring in
// the given terms, to the given depth (fuel). Applications that mention bound variables are
// covered by a quantified definitional axiom instead.
func (e *Engine) unfoldSpecs(ts []*Term, fuel int) []*Term {
	var out []*Term
	done := map[string]bool{}
	quantified := map[string]bool{}
	frontier := ts
	for depth := 0; depth < fuel; depth++ {
		var apps []*Term
		seen := map[*Term]bool{}
		var rec func(t *Term, bound map[string]bool)
		rec = func(t *Term, bound map[string]bool) {
			if len(bound) == 0 {
				if seen[t] {
					return
				}
				seen[t] = true
			}
			if t.Op == "forall" || t.Op == "exists" {
				nb := map[string]bool{}
				for k := range bound {
					nb[k] = true
				}
				for _, b := range t.Bound {
					nb[b.Name] = true
				}
				for _, a := range t.Args {
					rec(a, nb)
				}
				return
			}
			if t.Op == "app" {
				if u := e.ufSpecs[fmt.Sprintf("%s#%d", t.Name, e.ar.Mode)]; u != nil {
					if len(bound) > 0 && mentions(t, bound) {
						quantified[t.Name] = true
					} else if !done[t.Key()] {
						done[t.Key()] = true
						apps = append(apps, t)
					}
				}
			}
			for _, a := range t.Args {
				rec(a, bound)
			}
		}
		for _, t := range frontier {
			rec(t, nil)
		}
		if len(apps) == 0 {
			break
		}
		sort.Slice(apps, func(i, j int) bool { return apps[i].Key() < apps[j].Key() })
		var next []*Term
		for _, a := range apps {
			u := e.ufSpecs[fmt.Sprintf("%s#%d", a.Name, e.ar.Mode)]
			e.ufBody(u)
			if u.body == nil {
				continue
			}
			ck := fmt.Sprintf("%d|%s", e.ar.Mode, a.Key())
			eq, ok := e.unfoldCache[ck]
			if !ok {
				m := map[string]*Term{}
				for i, f := range u.formals {
					m[f.Name] = a.Args[i]
				}
				eq = Eq(a, Subst(u.body, m))
				e.unfoldCache[ck] = eq
			}
			out = append(out, eq)
			next = append(next, eq)
		}
		frontier = next
	}
	var qn []string
	for n := range quantified {
		qn = append(qn, n)
	}
	sort.Strings(qn)
	for _, n := range qn {
		u := e.ufSpecs[fmt.Sprintf("%s#%d", n, e.ar.Mode)]
		e.ufBody(u)
		if u.body == nil {
			continue
		}
		app := App(u.name, u.sort, u.formals...)
		out = append(out, Forall(u.formals, Eq(app, u.body), app))
	}
	return out
}

func mentions(t *Term, bound map[string]bool) bool {
	found := false
	Walk(t, map[*Term]bool{}, func(x *Term) {
		if x.Op == "var" && bound[x.Name] {
			found = true
		}
	})
	return found
}

// contentCongruence: recursive spec functions are pure Go functions of the *contents* of their
// byte-string arguments (they never look at capacity or identity). For two applications in the
// query (original terms only, not the unfolded definitions) whose byte arguments are different
// arrays, add the instance "equal contents and equal other arguments give equal results". This is
// a meta-property of the spec functions (stated in DESIGN.md 8.7), not something the solver proves.
func (e *Engine) contentCongruence(ts []*Term) []*Term {
	byName := map[string][]*Term{}
	seen := map[*Term]bool{}
	var names []string
	for _, t := range ts {
		Walk(t, seen, func(x *Term) {
			if x.Op != "app" {
				return
			}
			if u := e.ufSpecs[fmt.Sprintf("%s#%d", x.Name, e.ar.Mode)]; (u != nil || e.contentUFs[x.Name]) && groundTerm(x) {
				if len(byName[x.Name]) == 0 {
					names = append(names, x.Name)
				}
				for _, y := range byName[x.Name] {
					if sameTerm(x, y) {
						return
					}
				}
				byName[x.Name] = append(byName[x.Name], x)
			}
		})
	}
	sort.Strings(names)
	var out []*Term
	I := e.ar.I()
	for _, n := range names {
		apps := byName[n]
		u := e.ufSpecs[fmt.Sprintf("%s#%d", n, e.ar.Mode)]
		var sig *types.Signature
		if u != nil {
			sig = u.fn.Signature
		} else {
			// ufcontent: one string parameter
			sig = types.NewSignatureType(nil, nil, nil, types.NewTuple(types.NewVar(0, nil, "s", types.Typ[types.String])), nil, false)
		}
		pairs := 0
		for i := 0; i < len(apps) && pairs < 12; i++ {
			for j := i + 1; j < len(apps) && pairs < 12; j++ {
				a, b := apps[i], apps[j]
				var conds []*Term
				k := 0
				differ := false
				for pi := 0; pi < sig.Params().Len(); pi++ {
					pt := sig.Params().At(pi).Type()
					if isByteSlice(pt) || isString(pt) {
						arrA, offA, lenA := a.Args[k], a.Args[k+1], a.Args[k+2]
						arrB, offB, lenB := b.Args[k], b.Args[k+1], b.Args[k+2]
						k += 3
						conds = append(conds, Eq(lenA, lenB))
						if sameTerm(arrA, arrB) && sameTerm(offA, offB) {
							continue
						}
						differ = true
						// (forall i. P(i)) => Q is exists i. (P(i) => Q): the witness is a Skolem constant
						e.nfresh++
						iv := Var(fmt.Sprintf("cgw!%d", e.nfresh), I)
						inR := And(e.ar.Cmp(token.LEQ, tInt, e.ar.IConst(0), iv), e.ar.Cmp(token.LSS, tInt, iv, lenA))
						conds = append(conds, Implies(inR, Eq(Select(arrA, e.ar.Bin(token.ADD, tInt, offA, iv)), Select(arrB, e.ar.Bin(token.ADD, tInt, offB, iv)))))
					} else {
						conds = append(conds, Eq(a.Args[k], b.Args[k]))
						k++
					}
				}
				if !differ {
					continue
				}
				pairs++
				out = append(out, Implies(And(conds...), Eq(a, b)))
			}
		}
	}
	if len(out) > 0 {
		e.assumptions["spec functions are functions of the contents of their byte-string arguments (content congruence instances are added between applications on different arrays)"] = true
	}
	return out
}

func groundTerm(t *Term) bool {
	g := true
	Walk(t, map[*Term]bool{}, func(x *Term) {
		if x.Op == "var" && strings.HasPrefix(x.Name, "$b_") {
			g = false
		}
	})
	return g
}
