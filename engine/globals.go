package main

// Package-level variables. Immutable globals (never stored to outside the package
// initialiser) have the value the initialiser gave them: package init functions are
// executed symbolically once per arithmetic mode. Mutable globals are unconstrained.

import (
	"fmt"
	"go/token"
	"go/types"
	"sort"
	"strings"

	"golang.org/x/tools/go/ssa"
)

type initResult struct {
	vals  map[*ssa.Global]Val
	facts []*Term // facts about the entry heap (initial versions) of any function
	ids   int
	err   string
}

func (e *Engine) computeMutableGlobals() {
	e.mutableGlobals = map[*ssa.Global]bool{}
	e.globalWriters = map[*ssa.Global][]string{}
	var rootGlobal func(v ssa.Value) *ssa.Global
	rootGlobal = func(v ssa.Value) *ssa.Global {
		switch a := v.(type) {
		case *ssa.Global:
			return a
		case *ssa.FieldAddr:
			return rootGlobal(a.X)
		case *ssa.IndexAddr:
			return rootGlobal(a.X)
		}
		return nil
	}
	for path, p := range e.pkgs {
		if !strings.HasPrefix(path, modulePath) {
			continue
		}
		var fns []*ssa.Function
		for _, m := range p.Members {
			switch v := m.(type) {
			case *ssa.Function:
				fns = append(fns, v)
			case *ssa.Type:
				for _, t := range []types.Type{v.Type(), types.NewPointer(v.Type())} {
					ms := e.prog.MethodSets.MethodSet(t)
					for i := 0; i < ms.Len(); i++ {
						if f := e.prog.MethodValue(ms.At(i)); f != nil {
							fns = append(fns, f)
						}
					}
				}
				if named, ok := v.Type().(*types.Named); ok {
					for i := 0; i < named.NumMethods(); i++ {
						if f := e.prog.FuncValue(named.Method(i)); f != nil {
							fns = append(fns, f)
						}
					}
				}
			}
		}
		seen := map[*ssa.Function]bool{}
		var visit func(f *ssa.Function)
		visit = func(f *ssa.Function) {
			if f == nil || seen[f] {
				return
			}
			seen[f] = true
			if f.Name() == "init" && f.Signature.Recv() == nil {
				return
			}
			for _, b := range f.Blocks {
				for _, in := range b.Instrs {
					if s, ok := in.(*ssa.Store); ok {
						if g := rootGlobal(s.Addr); g != nil {
							e.mutableGlobals[g] = true
							e.globalWriters[g] = append(e.globalWriters[g], f.String())
						}
					}
					// address of a global escaping (passed to a call / stored) makes it mutable
					if c, ok := in.(ssa.CallInstruction); ok {
						for _, a := range c.Common().Args {
							if g := rootGlobal(a); g != nil {
								if _, isPtrRecvOnly := a.(*ssa.Global); isPtrRecvOnly {
									// e.g. (&pool).Get(): the object is used through its address
									e.mutableGlobals[g] = true
								}
							}
						}
					}
				}
			}
			for _, af := range f.AnonFuncs {
				visit(af)
			}
		}
		for _, f := range fns {
			visit(f)
		}
	}
}

func globalCellKey(g *ssa.Global) cellKey {
	return cellKey{Name: "global:" + g.Pkg.Pkg.Path() + "." + g.Name()}
}

// globalVal: current value of a package-level variable in a state
func (e *Engine) globalVal(st *State, g *ssa.Global, t types.Type) Val {
	ck := globalCellKey(g)
	if v, ok := st.cells[ck]; ok {
		return v
	}
	var v Val
	if !e.mutableGlobals[g] {
		if ir := e.initFor(g.Pkg); ir != nil {
			if iv, ok := ir.vals[g]; ok {
				v = iv
			}
		}
	}
	if v == nil {
		// unconstrained (mutable, or initialiser not evaluated): fixed names so that all
		// states of one function agree on the entry value
		ls := e.leaves(t)
		ts := make([]*Term, len(ls))
		for i, l := range ls {
			ts[i] = Var(fmt.Sprintf("G_%s_%s.%s", g.Pkg.Pkg.Name(), g.Name(), l.Name), l.S)
		}
		v = e.fromLeaves(t, ts)
		x := &Exec{e: e}
		st.assume(x.wf(st, t, v))
		if cx := e.curExec; cx != nil && cx.replayInfo != nil && e.mutableGlobals[g] && g.Pkg == cx.top.Pkg {
			cx.replayInfo.Globals[g.Name()] = v
			cx.replayInfo.GlobalT[g.Name()] = t
		}
	}
	st.cells[ck] = v
	return v
}

// assumeGlobals: facts about the heap as the package initialisers left it
func (e *Engine) assumeGlobals(x *Exec, st *State, fn *ssa.Function) {
	z := e.ar.IConst(0)
	st.assume(SelectD(st.heapGet("Alloc", st.allocSort()), z))
	var paths []string
	for p := range e.pkgs {
		if strings.HasPrefix(p, modulePath) {
			paths = append(paths, p)
		}
	}
	sort.Strings(paths)
	for _, p := range paths {
		if ir := e.initFor(e.pkgs[p]); ir != nil {
			for _, f := range ir.facts {
				st.assume(f)
			}
		}
	}
	// `global` clauses of the function's package (assumed; listed in the evidence)
	pp := funcPkgPath(fn)
	if ps := e.specs[pp]; ps != nil && len(ps.Globals) > 0 {
		var pkg *types.Package
		if tp := e.tpkgs[pp]; tp != nil {
			pkg = tp.Types
		}
		env := &Env{x: x, st: st, heap: st.heap, old: st.heap, vars: map[string]TV{}, ovars: map[string]TV{}, pkg: pkg}
		for _, c := range ps.Globals {
			st.assume(x.evalClause(st, env, c, nil))
			e.assumptions["assumed global invariant: "+c.Text] = true
		}
	}
}

const initIDBase = 1 << 20

// initFor runs the package initialiser symbolically (once per mode).
func (e *Engine) initFor(p *ssa.Package) *initResult {
	if p == nil {
		return nil
	}
	key := fmt.Sprintf("%s#%d", p.Pkg.Path(), e.ar.Mode)
	if r, ok := e.initDone[key]; ok {
		return r
	}
	res := &initResult{vals: map[*ssa.Global]Val{}}
	e.initDone[key] = res // also guards against re-entrance
	fn := p.Func("init")
	if fn == nil || len(fn.Blocks) < 2 {
		return res
	}
	x := &Exec{e: e, top: fn, spec: &FuncSpec{Key: "init", Loops: map[int]*LoopSpec{}}, qname: e.shortPkg(p.Pkg.Path()) + ".init", initMode: true, initPkg: p}
	x.pure = 1
	x.initIDs = initIDBase * (1 + e.pkgIndex(p.Pkg.Path()))
	st := &State{e: e, heap: map[string]*Term{}, cells: map[cellKey]Val{}}
	stExt[st] = &stateExt{}
	defer delete(stExt, st)
	savedFresh := e.nfresh
	e.nfresh = 10000 * (1 + e.pkgIndex(p.Pkg.Path()))
	defer func() { e.nfresh = savedFresh }()
	prevInit := e.curInit
	e.curInit = x
	func() {
		defer func() {
			e.curInit = prevInit
			if r := recover(); r != nil {
				switch v := r.(type) {
				case abortPath:
					res.err = v.why
				case evalErr:
					res.err = string(v)
				case opErr:
					res.err = string(v)
				default:
					panic(r)
				}
			}
		}()
		x.pushFrame(st, fn, nil, func(s *State, rs []Val) { x.initFinal = s })
		// skip the init$guard test: start at the block that performs the initialisation
		x.runBlock(st, fn.Blocks[1], fn.Blocks[0])
	}()
	final := x.initFinal
	if final == nil {
		final = x.initLast
	}
	if final == nil {
		e.note("package initialiser of %s could not be evaluated: %s", p.Pkg.Path(), res.err)
		return res
	}
	if res.err != "" {
		e.note("package initialiser of %s evaluated partially: %s", p.Pkg.Path(), res.err)
	}
	for _, m := range p.Members {
		g, ok := m.(*ssa.Global)
		if !ok {
			continue
		}
		if v, ok := final.cells[globalCellKey(g)]; ok && x.initWritten[g] {
			res.vals[g] = v
		}
	}
	// heap facts: every assumption collected during init that only talks about
	// init-time names is replayed over the initial heap versions of later functions.
	// Simplest sound encoding: for each heap map, for each init-allocated id, the final
	// content at that id equals the content in the entry heap (objects created by the
	// initialiser are assumed not to be mutated afterwards - recorded as an assumption).
	var names []string
	for n := range final.heap {
		names = append(names, n)
	}
	sort.Strings(names)
	for _, f := range final.pc {
		res.facts = append(res.facts, f)
	}
	for _, n := range names {
		cur := final.heap[n]
		init0 := heapInit(n, cur.S)
		if n == "Alloc" {
			for _, id := range x.initAllocated {
				res.facts = append(res.facts, Select(init0, id))
			}
			continue
		}
		if cur.S.K != SArray {
			continue
		}
		// every index written during initialisation (walk the store chain down to the initial version)
		seenIdx := map[string]bool{}
		for c := deref(cur); c.Op == "store"; c = deref(c.Args[0]) {
			idx := c.Args[1]
			if seenIdx[idx.Key()] {
				continue
			}
			seenIdx[idx.Key()] = true
			res.facts = append(res.facts, Eq(Select(init0, idx), SelectD(cur, idx)))
		}
	}
	if len(x.initAllocated) > 0 {
		e.assumptions["objects created by package initialisers (predeclared errors, tables) are not mutated afterwards"] = true
	}
	return res
}

func (e *Engine) pkgIndex(path string) int {
	var paths []string
	for p := range e.pkgs {
		paths = append(paths, p)
	}
	sort.Strings(paths)
	for i, p := range paths {
		if p == path {
			return i
		}
	}
	return 0
}

var _ = token.ADD
