package main

// SMT term AST with light simplification and SMT-LIB printing.

import (
	"fmt"
	"math/big"
	"sort"
	"strings"
)

type SortKind int

const (
	SBool SortKind = iota
	SBV
	SInt
	SArray
)

type Sort struct {
	K    SortKind
	W    int
	Idx  *Sort
	Elem *Sort
	str  string
}

var sortTab = map[string]*Sort{}

func internSort(s *Sort) *Sort {
	k := s.mk()
	if x, ok := sortTab[k]; ok {
		return x
	}
	s.str = k
	sortTab[k] = s
	return s
}

func (s *Sort) mk() string {
	switch s.K {
	case SBool:
		return "Bool"
	case SBV:
		return fmt.Sprintf("(_ BitVec %d)", s.W)
	case SInt:
		return "Int"
	case SArray:
		return "(Array " + s.Idx.String() + " " + s.Elem.String() + ")"
	}
	panic("sort")
}

func (s *Sort) String() string { return s.str }

var (
	BoolSort = internSort(&Sort{K: SBool})
	IntSort  = internSort(&Sort{K: SInt})
)

func BV(w int) *Sort                { return internSort(&Sort{K: SBV, W: w}) }
func ArraySort(idx, el *Sort) *Sort { return internSort(&Sort{K: SArray, Idx: idx, Elem: el}) }

type Term struct {
	Op    string // "var", "const", "true", "false", SMT op, "app", "forall", "exists", "extract", "zext", "sext"
	Args  []*Term
	S     *Sort
	Name  string
	Val   *big.Int
	Bound []*Term
	I, J  int
	key   string
	h     uint64
}

// hash: structural hash (cached); equal terms have equal hashes
func (t *Term) hash() uint64 {
	if t.h != 0 {
		return t.h
	}
	h := uint64(1469598103934665603)
	mix := func(s string) {
		for i := 0; i < len(s); i++ {
			h ^= uint64(s[i])
			h *= 1099511628211
		}
	}
	mix(t.Op)
	mix(t.Name)
	if t.S != nil {
		mix(t.S.str)
	}
	if t.Val != nil {
		mix(t.Val.String())
	}
	h ^= uint64(t.I)*31 + uint64(t.J)*17
	for _, b := range t.Bound {
		mix(b.Name)
	}
	for _, a := range t.Args {
		h = h*1099511628211 ^ a.hash()
	}
	if h == 0 {
		h = 1
	}
	t.h = h
	return h
}

// sameTerm: structural equality (pointer / hash fast paths)
func sameTerm(a, b *Term) bool {
	if a == b {
		return true
	}
	if a.hash() != b.hash() {
		return false
	}
	if a.Op != b.Op || a.Name != b.Name || len(a.Args) != len(b.Args) || a.S != b.S || a.I != b.I || a.J != b.J {
		return false
	}
	if (a.Val == nil) != (b.Val == nil) || (a.Val != nil && a.Val.Cmp(b.Val) != 0) {
		return false
	}
	if len(a.Bound) != len(b.Bound) {
		return false
	}
	for i := range a.Bound {
		if a.Bound[i].Name != b.Bound[i].Name {
			return false
		}
	}
	for i := range a.Args {
		if !sameTerm(a.Args[i], b.Args[i]) {
			return false
		}
	}
	return true
}

func (t *Term) Key() string {
	if t.key != "" {
		return t.key
	}
	var sb strings.Builder
	t.write(&sb)
	t.key = sb.String()
	return t.key
}

func (t *Term) String() string { return t.Key() }

func (t *Term) write(sb *strings.Builder) {
	switch t.Op {
	case "var":
		sb.WriteString(t.Name)
	case "true", "false":
		sb.WriteString(t.Op)
	case "const":
		if t.S.K == SBV {
			v := new(big.Int).Set(t.Val)
			if v.Sign() < 0 {
				v.Add(v, new(big.Int).Lsh(big.NewInt(1), uint(t.S.W)))
			}
			if t.S.W%4 == 0 {
				fmt.Fprintf(sb, "#x%0*s", t.S.W/4, v.Text(16))
			} else {
				fmt.Fprintf(sb, "#b%0*s", t.S.W, v.Text(2))
			}
		} else {
			if t.Val.Sign() < 0 {
				fmt.Fprintf(sb, "(- %s)", new(big.Int).Neg(t.Val).String())
			} else {
				sb.WriteString(t.Val.String())
			}
		}
	case "app":
		if len(t.Args) == 0 {
			sb.WriteString(t.Name)
			return
		}
		sb.WriteString("(" + t.Name)
		for _, a := range t.Args {
			sb.WriteByte(' ')
			a.write(sb)
		}
		sb.WriteByte(')')
	case "forall", "exists":
		sb.WriteString("(" + t.Op + " (")
		for _, b := range t.Bound {
			fmt.Fprintf(sb, "(%s %s)", b.Name, b.S)
		}
		sb.WriteString(") ")
		pats := t.Args[1:]
		if len(pats) > 0 {
			sb.WriteString("(! ")
		}
		t.Args[0].write(sb)
		if len(pats) > 0 {
			for _, p := range pats {
				sb.WriteString(" :pattern (")
				if p.Op == "mpat" {
					for i, q := range p.Args {
						if i > 0 {
							sb.WriteByte(' ')
						}
						q.write(sb)
					}
				} else {
					p.write(sb)
				}
				sb.WriteString(")")
			}
			sb.WriteString(")")
		}
		sb.WriteByte(')')
	case "extract":
		fmt.Fprintf(sb, "((_ extract %d %d) ", t.I, t.J)
		t.Args[0].write(sb)
		sb.WriteByte(')')
	case "zext":
		fmt.Fprintf(sb, "((_ zero_extend %d) ", t.I)
		t.Args[0].write(sb)
		sb.WriteByte(')')
	case "sext":
		fmt.Fprintf(sb, "((_ sign_extend %d) ", t.I)
		t.Args[0].write(sb)
		sb.WriteByte(')')
	case "constarr":
		fmt.Fprintf(sb, "((as const %s) ", t.S)
		t.Args[0].write(sb)
		sb.WriteByte(')')
	default:
		sb.WriteString("(" + t.Op)
		for _, a := range t.Args {
			sb.WriteByte(' ')
			a.write(sb)
		}
		sb.WriteByte(')')
	}
}

var (
	True  = &Term{Op: "true", S: BoolSort}
	False = &Term{Op: "false", S: BoolSort}
)

func Var(name string, s *Sort) *Term { return &Term{Op: "var", Name: name, S: s} }

func Const(s *Sort, v *big.Int) *Term {
	if s.K == SBV {
		m := new(big.Int).Lsh(big.NewInt(1), uint(s.W))
		v = new(big.Int).Mod(v, m)
	}
	return &Term{Op: "const", S: s, Val: v}
}
func ConstI(s *Sort, v int64) *Term { return Const(s, big.NewInt(v)) }

func (t *Term) IsConst() bool { return t.Op == "const" }
func (t *Term) IsTrue() bool  { return t.Op == "true" }
func (t *Term) IsFalse() bool { return t.Op == "false" }

// signed value of bv const
func (t *Term) SVal() *big.Int {
	if t.S.K != SBV {
		return t.Val
	}
	v := new(big.Int).Set(t.Val)
	if v.Bit(t.S.W-1) == 1 {
		v.Sub(v, new(big.Int).Lsh(big.NewInt(1), uint(t.S.W)))
	}
	return v
}

func App(name string, s *Sort, args ...*Term) *Term {
	return &Term{Op: "app", Name: name, S: s, Args: args}
}

func Bool(b bool) *Term {
	if b {
		return True
	}
	return False
}

func Not(a *Term) *Term {
	switch a.Op {
	case "true":
		return False
	case "false":
		return True
	case "not":
		return a.Args[0]
	}
	return &Term{Op: "not", S: BoolSort, Args: []*Term{a}}
}

func And(as ...*Term) *Term {
	var out []*Term
	for _, a := range as {
		if a.IsTrue() {
			continue
		}
		if a.IsFalse() {
			return False
		}
		if a.Op == "and" {
			out = append(out, a.Args...)
		} else {
			out = append(out, a)
		}
	}
	if len(out) == 0 {
		return True
	}
	if len(out) == 1 {
		return out[0]
	}
	return &Term{Op: "and", S: BoolSort, Args: out}
}

func Or(as ...*Term) *Term {
	var out []*Term
	for _, a := range as {
		if a.IsFalse() {
			continue
		}
		if a.IsTrue() {
			return True
		}
		if a.Op == "or" {
			out = append(out, a.Args...)
		} else {
			out = append(out, a)
		}
	}
	if len(out) == 0 {
		return False
	}
	if len(out) == 1 {
		return out[0]
	}
	return &Term{Op: "or", S: BoolSort, Args: out}
}

func Implies(a, b *Term) *Term {
	if a.IsTrue() {
		return b
	}
	if a.IsFalse() || b.IsTrue() {
		return True
	}
	if b.IsFalse() {
		return Not(a)
	}
	return &Term{Op: "=>", S: BoolSort, Args: []*Term{a, b}}
}

func Eq(a, b *Term) *Term {
	if a.S != b.S {
		panic(fmt.Sprintf("Eq sort mismatch: %s : %s vs %s : %s", a, a.S, b, b.S))
	}
	if a.IsConst() && b.IsConst() {
		return Bool(a.Val.Cmp(b.Val) == 0)
	}
	if a.S == BoolSort {
		if a.IsTrue() {
			return b
		}
		if b.IsTrue() {
			return a
		}
		if a.IsFalse() {
			return Not(b)
		}
		if b.IsFalse() {
			return Not(a)
		}
	}
	if sameTerm(a, b) {
		return True
	}
	return &Term{Op: "=", S: BoolSort, Args: []*Term{a, b}}
}

func Ite(c, a, b *Term) *Term {
	if c.IsTrue() {
		return a
	}
	if c.IsFalse() {
		return b
	}
	if a.S != b.S {
		panic(fmt.Sprintf("Ite sort mismatch %s vs %s", a.S, b.S))
	}
	if sameTerm(a, b) {
		return a
	}
	if a.S == BoolSort {
		if a.IsTrue() && b.IsFalse() {
			return c
		}
		if a.IsFalse() && b.IsTrue() {
			return Not(c)
		}
	}
	return &Term{Op: "ite", S: a.S, Args: []*Term{c, a, b}}
}

func Select(arr, idx *Term) *Term {
	if arr.S.K != SArray {
		panic("select on non-array " + arr.String())
	}
	if idx.S != arr.S.Idx {
		panic(fmt.Sprintf("select index sort %s vs %s in %s[%s]", idx.S, arr.S.Idx, arr, idx))
	}
	// select over store with syntactically decidable index
	a := arr
	for a.Op == "store" {
		si := a.Args[1]
		if sameTerm(si, idx) {
			return a.Args[2]
		}
		if definitelyDistinct(si, idx) {
			a = a.Args[0]
			continue
		}
		break
	}
	if a.Op == "constarr" {
		return a.Args[0]
	}
	return &Term{Op: "select", S: arr.S.Elem, Args: []*Term{a, idx}}
}

// definitelyDistinct: syntactic proof that two index terms differ
func definitelyDistinct(a, b *Term) bool {
	if a.IsConst() && b.IsConst() {
		return a.Val.Cmp(b.Val) != 0
	}
	if d, ok := constDiff(a, b); ok && d != 0 {
		return true
	}
	// injective constructors (sub-object references, element references)
	if a.Op == "app" && b.Op == "app" && a.Name == b.Name && len(a.Args) == len(b.Args) && (strings.HasPrefix(a.Name, "sub_") || a.Name == "elemref") {
		for i := range a.Args {
			if definitelyDistinct(a.Args[i], b.Args[i]) {
				return true
			}
		}
	}
	return false
}

// constDiff reports a-b when both are base+const over the same base
func constDiff(a, b *Term) (int64, bool) {
	ba, ca := splitAdd(a)
	bb, cb := splitAdd(b)
	if ba == nil || bb == nil {
		if ba == nil && bb == nil {
			return ca - cb, true
		}
		return 0, false
	}
	if sameTerm(ba, bb) {
		return ca - cb, true
	}
	return 0, false
}

func splitAdd(t *Term) (*Term, int64) {
	if t.IsConst() {
		if t.Val.IsInt64() {
			return nil, t.SVal().Int64()
		}
	}
	if (t.Op == "bvadd" || t.Op == "+") && len(t.Args) == 2 {
		if t.Args[1].IsConst() && t.Args[1].SVal().IsInt64() {
			b, c := splitAdd(t.Args[0])
			if b == nil && t.Args[0].IsConst() {
				return nil, c + t.Args[1].SVal().Int64()
			}
			if b != nil {
				return b, c + t.Args[1].SVal().Int64()
			}
			return t.Args[0], t.Args[1].SVal().Int64()
		}
		if t.Args[0].IsConst() && t.Args[0].SVal().IsInt64() {
			b, c := splitAdd(t.Args[1])
			if b != nil {
				return b, c + t.Args[0].SVal().Int64()
			}
			return t.Args[1], t.Args[0].SVal().Int64()
		}
	}
	return t, 0
}

func Store(arr, idx, v *Term) *Term {
	if arr.S.K != SArray || idx.S != arr.S.Idx || v.S != arr.S.Elem {
		panic(fmt.Sprintf("store sort mismatch: %s [%s : %s] := %s : %s", arr.S, idx, idx.S, v, v.S))
	}
	return &Term{Op: "store", S: arr.S, Args: []*Term{arr, idx, v}}
}

func ConstArr(s *Sort, v *Term) *Term { return &Term{Op: "constarr", S: s, Args: []*Term{v}} }

func Forall(bound []*Term, body *Term, pats ...*Term) *Term {
	if body.IsTrue() {
		return True
	}
	if len(bound) == 0 {
		return body
	}
	// a pattern must mention bound variables (constant folding can reduce a trigger term to a constant,
	// which the solvers reject as a pattern)
	names := map[string]bool{}
	for _, b := range bound {
		names[b.Name] = true
	}
	var keep []*Term
	for _, p := range pats {
		has := false
		Walk(p, map[*Term]bool{}, func(x *Term) {
			if x.Op == "var" && names[x.Name] {
				has = true
			}
		})
		// ... and may contain only function applications over them (no connectives, ite, comparisons)
		bad := false
		Walk(p, map[*Term]bool{}, func(x *Term) {
			switch x.Op {
			case "not", "ite", "and", "or", "=>", "=", "<", "<=", ">", ">=", "distinct", "forall", "exists":
				bad = true
			}
		})
		if has && !bad {
			keep = append(keep, p)
		}
	}
	return &Term{Op: "forall", S: BoolSort, Bound: bound, Args: append([]*Term{body}, keep...)}
}

// flattenForall merges `forall j :: G ==> (forall x :: B, pattern P)` into one quantifier over
// (j, x) with the multi-pattern (P, T_j...) where T_j is a small select/app term of G or B that
// mentions j but no inner variable: nested quantifiers without a pattern on the outer one are
// not instantiated reliably by E-matching.
// absolutize: E-matching cannot instantiate `forall i :: ... (select a (+ base i)) ...` reliably (sums
// are flattened, so a pattern `(+ base i)` rarely matches a ground index). When a bound integer
// variable occurs in array indices only as `base + i` for one base, change variables to the absolute
// index x = base + i: every `(+ base i)` becomes x and every other occurrence of i becomes `x - base`.
// The quantifier is equivalent; its natural pattern is then `(select a x)`.
// absPatterns: side channel from absolutize to flattenForall: bound variable name -> trigger term
var absPatterns = map[string]*Term{}

func absolutize(bound []*Term, body *Term) *Term {
	for _, bv := range bound {
		delete(absPatterns, bv.Name)
		if bv.S != IntSort {
			continue
		}
		var base *Term
		ok := true
		found := false
		seen := map[*Term]bool{}
		var mentionsV func(t *Term) bool
		memo := map[*Term]bool{}
		mentionsV = func(t *Term) bool {
			if v, done := memo[t]; done {
				return v
			}
			r := t.Op == "var" && t.Name == bv.Name
			for _, a := range t.Args {
				if mentionsV(a) {
					r = true
				}
			}
			memo[t] = r
			return r
		}
		// pass 1: element objects elemref(region, base+i) take precedence (their fields live in maps whose
		// versions change with every store, so the version-independent pattern elemref(region, x) is the
		// robust trigger); other indexings of i are then rewritten relative to x
		var erBase, erPat *Term
		erOK := true
		Walk(body, map[*Term]bool{}, func(t *Term) {
			if t.Op != "app" || t.Name != "elemref" || len(t.Args) != 2 || !mentionsV(t.Args[1]) {
				return
			}
			idx := t.Args[1]
			if idx.Op == "+" && len(idx.Args) == 2 && idx.Args[1].Op == "var" && idx.Args[1].Name == bv.Name && !mentionsV(idx.Args[0]) && !mentionsV(t.Args[0]) {
				if erBase == nil {
					erBase, erPat = idx.Args[0], t
				} else if !sameTerm(erBase, idx.Args[0]) {
					erOK = false
				}
				return
			}
			erOK = false
		})
		if erBase != nil && erOK {
			base = erBase
			found = true
			absPatterns[bv.Name] = App("elemref", IntSort, erPat.Args[0], bv)
		}
		Walk(body, seen, func(t *Term) {
			if erBase != nil && erOK {
				return
			}
			if !ok || t.Op != "select" || len(t.Args) != 2 {
				return
			}
			idx := t.Args[1]
			if !mentionsV(idx) {
				return
			}
			if idx.Op == "+" && len(idx.Args) == 2 && idx.Args[1].Op == "var" && idx.Args[1].Name == bv.Name && !mentionsV(idx.Args[0]) {
				if base == nil {
					base = idx.Args[0]
				} else if !sameTerm(base, idx.Args[0]) {
					ok = false
				}
				found = true
				return
			}
			if idx.Op == "var" && idx.Name == bv.Name {
				ok = false // already absolute somewhere: leave the quantifier alone
				return
			}
			ok = false
		})
		if !ok || !found || base == nil {
			continue
		}
		// base must not mention other bound variables of this quantifier
		mb := false
		for _, ob := range bound {
			if ob != bv {
				Walk(base, map[*Term]bool{}, func(t *Term) {
					if t.Op == "var" && t.Name == ob.Name {
						mb = true
					}
				})
			}
		}
		if mb {
			continue
		}
		x := bv // reuse the variable: it now stands for the absolute index
		rel := IntOp("-", x, base)
		var rw func(t *Term) *Term
		cache := map[*Term]*Term{}
		rw = func(t *Term) *Term {
			if r, done := cache[t]; done {
				return r
			}
			var r *Term
			switch {
			case t.Op == "+" && len(t.Args) == 2 && t.Args[1].Op == "var" && t.Args[1].Name == bv.Name && sameTerm(t.Args[0], base):
				r = x
			case t.Op == "var" && t.Name == bv.Name:
				r = rel
			case len(t.Args) == 0 || !mentionsV(t):
				r = t
			default:
				na := make([]*Term, len(t.Args))
				for i, a := range t.Args {
					na[i] = rw(a)
				}
				c := *t
				c.Args = na
				c.key = ""
				c.h = 0
				r = &c
			}
			cache[t] = r
			return r
		}
		body = rw(body)
	}
	return body
}

func flattenForall(bound []*Term, body *Term) *Term {
	body = absolutize(bound, body)
	guard := True
	inner := body
	if body.Op == "=>" {
		guard, inner = body.Args[0], body.Args[1]
	}
	if inner.Op != "forall" || len(inner.Args) != 2 {
		if len(bound) == 1 {
			if pt := absPatterns[bound[0].Name]; pt != nil {
				delete(absPatterns, bound[0].Name)
				return Forall(bound, body, pt)
			}
		}
		return Forall(bound, body)
	}
	innerNames := map[string]bool{}
	for _, b := range inner.Bound {
		innerNames[b.Name] = true
	}
	pats := []*Term{}
	if inner.Args[1].Op == "mpat" {
		pats = append(pats, inner.Args[1].Args...)
	} else {
		pats = append(pats, inner.Args[1])
	}
	for _, b := range bound {
		var best *Term
		bestSize := 1 << 30
		var rec func(t *Term) (hasB, hasInner bool, size int)
		memo := map[*Term][3]int{}
		rec = func(t *Term) (bool, bool, int) {
			if m, ok := memo[t]; ok {
				return m[0] == 1, m[1] == 1, m[2]
			}
			hb, hi, sz := false, false, 1
			if t.Op == "var" {
				if t.Name == b.Name {
					hb = true
				}
				if innerNames[t.Name] {
					hi = true
				}
			}
			if t.Op == "forall" || t.Op == "exists" {
				hi = true // do not pick terms under further binders
			}
			for _, a := range t.Args {
				x, y, z := rec(a)
				hb = hb || x
				hi = hi || y
				sz += z
			}
			if hb && !hi && (t.Op == "select" || t.Op == "app") && sz < bestSize {
				best, bestSize = t, sz
			}
			bi := func(v bool) int {
				if v {
					return 1
				}
				return 0
			}
			memo[t] = [3]int{bi(hb), bi(hi), sz}
			return hb, hi, sz
		}
		rec(guard)
		rec(inner.Args[0])
		if best == nil {
			return Forall(bound, body)
		}
		pats = append(pats, best)
	}
	all := append(append([]*Term{}, bound...), inner.Bound...)
	return Forall(all, Implies(guard, inner.Args[0]), &Term{Op: "mpat", S: BoolSort, Args: pats})
}

func Exists(bound []*Term, body *Term) *Term {
	if body.IsFalse() {
		return False
	}
	if len(bound) == 0 {
		return body
	}
	return &Term{Op: "exists", S: BoolSort, Bound: bound, Args: []*Term{body}}
}

func mask(w int) *big.Int {
	return new(big.Int).Sub(new(big.Int).Lsh(big.NewInt(1), uint(w)), big.NewInt(1))
}

// BVOp builds a binary bit-vector operation with constant folding.
func BVOp(op string, a, b *Term) *Term {
	if a.S != b.S {
		panic(fmt.Sprintf("BVOp %s sort mismatch %s:%s vs %s:%s", op, a, a.S, b, b.S))
	}
	w := a.S.W
	if a.IsConst() && b.IsConst() {
		x, y := a.Val, b.Val
		r := new(big.Int)
		ok := true
		switch op {
		case "bvadd":
			r.Add(x, y)
		case "bvsub":
			r.Sub(x, y)
		case "bvmul":
			r.Mul(x, y)
		case "bvand":
			r.And(x, y)
		case "bvor":
			r.Or(x, y)
		case "bvxor":
			r.Xor(x, y)
		case "bvshl":
			if y.IsUint64() && y.Uint64() < uint64(w) {
				r.Lsh(x, uint(y.Uint64()))
			}
		case "bvlshr":
			if y.IsUint64() && y.Uint64() < uint64(w) {
				r.Rsh(x, uint(y.Uint64()))
			}
		case "bvashr":
			sx := a.SVal()
			sh := uint(w - 1)
			if y.IsUint64() && y.Uint64() < uint64(w) {
				sh = uint(y.Uint64())
			}
			r.Rsh(sx, sh)
		case "bvudiv":
			if y.Sign() == 0 {
				ok = false
			} else {
				r.Div(x, y)
			}
		case "bvurem":
			if y.Sign() == 0 {
				ok = false
			} else {
				r.Mod(x, y)
			}
		case "bvsdiv":
			if y.Sign() == 0 {
				ok = false
			} else {
				r.Quo(a.SVal(), b.SVal())
			}
		case "bvsrem":
			if y.Sign() == 0 {
				ok = false
			} else {
				r.Rem(a.SVal(), b.SVal())
			}
		default:
			ok = false
		}
		if ok {
			return Const(a.S, r)
		}
	}
	switch op {
	case "bvadd":
		if a.IsConst() && a.Val.Sign() == 0 {
			return b
		}
		if b.IsConst() && b.Val.Sign() == 0 {
			return a
		}
		// (x + c1) + c2 -> x + (c1+c2)
		if b.IsConst() && a.Op == "bvadd" && a.Args[1].IsConst() {
			return BVOp("bvadd", a.Args[0], Const(a.S, new(big.Int).Add(a.Args[1].Val, b.Val)))
		}
		if a.IsConst() && !b.IsConst() {
			return BVOp("bvadd", b, a)
		}
	case "bvsub":
		if b.IsConst() && b.Val.Sign() == 0 {
			return a
		}
		if sameTerm(a, b) {
			return ConstI(a.S, 0)
		}
		if b.IsConst() {
			return BVOp("bvadd", a, Const(a.S, new(big.Int).Neg(b.Val)))
		}
		// (x + c) - x -> c
		if a.Op == "bvadd" && sameTerm(a.Args[0], b) {
			return a.Args[1]
		}
	case "bvmul":
		if b.IsConst() && b.Val.Cmp(big.NewInt(1)) == 0 {
			return a
		}
		if a.IsConst() && a.Val.Cmp(big.NewInt(1)) == 0 {
			return b
		}
	case "bvor", "bvxor":
		if a.IsConst() && a.Val.Sign() == 0 {
			return b
		}
		if b.IsConst() && b.Val.Sign() == 0 {
			return a
		}
	case "bvshl", "bvlshr", "bvashr":
		if b.IsConst() && b.Val.Sign() == 0 {
			return a
		}
	}
	return &Term{Op: op, S: a.S, Args: []*Term{a, b}}
}

func BVCmp(op string, a, b *Term) *Term {
	if a.S != b.S {
		panic(fmt.Sprintf("BVCmp %s sort mismatch %s:%s vs %s:%s", op, a, a.S, b, b.S))
	}
	if a.IsConst() && b.IsConst() {
		var c int
		if strings.HasPrefix(op, "bvs") {
			c = a.SVal().Cmp(b.SVal())
		} else {
			c = a.Val.Cmp(b.Val)
		}
		switch op[3:] {
		case "lt":
			return Bool(c < 0)
		case "le":
			return Bool(c <= 0)
		case "gt":
			return Bool(c > 0)
		case "ge":
			return Bool(c >= 0)
		}
	}
	return &Term{Op: op, S: BoolSort, Args: []*Term{a, b}}
}

func Extract(hi, lo int, a *Term) *Term {
	if lo == 0 && hi == a.S.W-1 {
		return a
	}
	if a.IsConst() {
		r := new(big.Int).Rsh(a.Val, uint(lo))
		r.And(r, mask(hi-lo+1))
		return Const(BV(hi-lo+1), r)
	}
	// extract of zext/sext when fully inside the original
	if (a.Op == "zext" || a.Op == "sext") && hi < a.Args[0].S.W {
		return Extract(hi, lo, a.Args[0])
	}
	if a.Op == "extract" {
		return Extract(hi+a.J, lo+a.J, a.Args[0])
	}
	return &Term{Op: "extract", S: BV(hi - lo + 1), Args: []*Term{a}, I: hi, J: lo}
}

func ZExt(n int, a *Term) *Term {
	if n == 0 {
		return a
	}
	if a.IsConst() {
		return Const(BV(a.S.W+n), a.Val)
	}
	if a.Op == "zext" {
		return ZExt(n+a.I, a.Args[0])
	}
	return &Term{Op: "zext", S: BV(a.S.W + n), Args: []*Term{a}, I: n}
}

func SExt(n int, a *Term) *Term {
	if n == 0 {
		return a
	}
	if a.IsConst() {
		return Const(BV(a.S.W+n), a.SVal())
	}
	if a.Op == "zext" && a.I > 0 {
		return ZExt(n+a.I, a.Args[0])
	}
	return &Term{Op: "sext", S: BV(a.S.W + n), Args: []*Term{a}, I: n}
}

func BVNeg(a *Term) *Term {
	if a.IsConst() {
		return Const(a.S, new(big.Int).Neg(a.Val))
	}
	return &Term{Op: "bvneg", S: a.S, Args: []*Term{a}}
}
func BVNot(a *Term) *Term {
	if a.IsConst() {
		return Const(a.S, new(big.Int).Xor(a.Val, mask(a.S.W)))
	}
	return &Term{Op: "bvnot", S: a.S, Args: []*Term{a}}
}

// Int-sorted arithmetic
func IntOp(op string, a, b *Term) *Term {
	if a.S != IntSort || b.S != IntSort {
		panic(fmt.Sprintf("IntOp %s on %s:%s , %s:%s", op, a, a.S, b, b.S))
	}
	if a.IsConst() && b.IsConst() {
		r := new(big.Int)
		ok := true
		switch op {
		case "+":
			r.Add(a.Val, b.Val)
		case "-":
			r.Sub(a.Val, b.Val)
		case "*":
			r.Mul(a.Val, b.Val)
		case "div":
			if b.Val.Sign() == 0 {
				ok = false
			} else {
				// SMT div: floor for positive divisor (euclidean)
				m := new(big.Int)
				r.DivMod(a.Val, b.Val, m)
			}
		case "mod":
			if b.Val.Sign() == 0 {
				ok = false
			} else {
				r.Mod(a.Val, b.Val)
			}
		default:
			ok = false
		}
		if ok {
			return Const(IntSort, r)
		}
	}
	switch op {
	case "+":
		if a.IsConst() && a.Val.Sign() == 0 {
			return b
		}
		if b.IsConst() && b.Val.Sign() == 0 {
			return a
		}
		if b.IsConst() && a.Op == "+" && len(a.Args) == 2 && a.Args[1].IsConst() {
			return IntOp("+", a.Args[0], Const(IntSort, new(big.Int).Add(a.Args[1].Val, b.Val)))
		}
		if a.IsConst() && !b.IsConst() {
			return IntOp("+", b, a)
		}
	case "-":
		if b.IsConst() && b.Val.Sign() == 0 {
			return a
		}
		if sameTerm(a, b) {
			return ConstI(IntSort, 0)
		}
		if b.IsConst() {
			return IntOp("+", a, Const(IntSort, new(big.Int).Neg(b.Val)))
		}
		if a.Op == "+" && len(a.Args) == 2 && sameTerm(a.Args[0], b) {
			return a.Args[1]
		}
	case "*":
		if b.IsConst() && b.Val.Cmp(big.NewInt(1)) == 0 {
			return a
		}
		if a.IsConst() && a.Val.Cmp(big.NewInt(1)) == 0 {
			return b
		}
	}
	return &Term{Op: op, S: IntSort, Args: []*Term{a, b}}
}

func IntCmp(op string, a, b *Term) *Term {
	if a.IsConst() && b.IsConst() {
		c := a.Val.Cmp(b.Val)
		switch op {
		case "<":
			return Bool(c < 0)
		case "<=":
			return Bool(c <= 0)
		case ">":
			return Bool(c > 0)
		case ">=":
			return Bool(c >= 0)
		}
	}
	return &Term{Op: op, S: BoolSort, Args: []*Term{a, b}}
}

// Subst replaces free variables (by name) in t.
func Subst(t *Term, m map[string]*Term) *Term {
	if len(m) == 0 {
		return t
	}
	cache := map[*Term]*Term{}
	var rec func(t *Term) *Term
	rec = func(t *Term) *Term {
		if r, ok := cache[t]; ok {
			return r
		}
		if t.Op == "var" {
			if r, ok := m[t.Name]; ok {
				cache[t] = r
				return r
			}
			cache[t] = t
			return t
		}
		if len(t.Args) == 0 {
			cache[t] = t
			return t
		}
		changed := false
		na := make([]*Term, len(t.Args))
		for i, a := range t.Args {
			na[i] = rec(a)
			if na[i] != a {
				changed = true
			}
		}
		r := t
		if changed {
			r = rebuild(t, na)
		}
		cache[t] = r
		return r
	}
	return rec(t)
}

func rebuild(t *Term, na []*Term) *Term {
	switch t.Op {
	case "not":
		return Not(na[0])
	case "and":
		return And(na...)
	case "or":
		return Or(na...)
	case "=>":
		return Implies(na[0], na[1])
	case "=":
		return Eq(na[0], na[1])
	case "ite":
		return Ite(na[0], na[1], na[2])
	case "select":
		return Select(na[0], na[1])
	case "extract":
		return Extract(t.I, t.J, na[0])
	case "zext":
		return ZExt(t.I, na[0])
	case "sext":
		return SExt(t.I, na[0])
	case "bvadd", "bvsub", "bvmul", "bvand", "bvor", "bvxor", "bvshl", "bvlshr", "bvashr", "bvudiv", "bvurem", "bvsdiv", "bvsrem":
		return BVOp(t.Op, na[0], na[1])
	case "bvult", "bvule", "bvugt", "bvuge", "bvslt", "bvsle", "bvsgt", "bvsge":
		return BVCmp(t.Op, na[0], na[1])
	case "+", "-", "*", "div", "mod":
		if len(na) == 2 {
			return IntOp(t.Op, na[0], na[1])
		}
	case "<", "<=", ">", ">=":
		return IntCmp(t.Op, na[0], na[1])
	}
	c := *t
	c.Args = na
	c.key = ""
	return &c
}

// Walk visits all subterms (DAG-aware).
func Walk(t *Term, seen map[*Term]bool, f func(*Term)) {
	if seen[t] {
		return
	}
	seen[t] = true
	f(t)
	for _, a := range t.Args {
		Walk(a, seen, f)
	}
}

// FreeSyms collects free variables and UF symbols used in the terms.
type symInfo struct {
	name string
	dom  []*Sort
	rng  *Sort
}

func collectSyms(ts []*Term) []symInfo {
	seen := map[*Term]bool{}
	syms := map[string]symInfo{}
	for _, t := range ts {
		var rec func(t *Term, bound map[string]bool)
		rec = func(t *Term, bound map[string]bool) {
			if len(bound) == 0 {
				if seen[t] {
					return
				}
				seen[t] = true
			}
			switch t.Op {
			case "var":
				if !bound[t.Name] {
					if old, ok := syms[t.Name]; ok && old.rng != t.S {
						panic("symbol " + t.Name + " used at two sorts: " + old.rng.String() + " / " + t.S.String())
					}
					syms[t.Name] = symInfo{name: t.Name, rng: t.S}
				}
			case "app":
				var dom []*Sort
				for _, a := range t.Args {
					dom = append(dom, a.S)
				}
				syms[t.Name] = symInfo{name: t.Name, dom: dom, rng: t.S}
			case "forall", "exists":
				nb := map[string]bool{}
				for k := range bound {
					nb[k] = true
				}
				for _, b := range t.Bound {
					nb[b.Name] = true
				}
				for _, a := range t.Args {
					rec(a, nb)
				}
				return
			}
			for _, a := range t.Args {
				rec(a, bound)
			}
		}
		rec(t, nil)
	}
	var out []symInfo
	for _, s := range syms {
		out = append(out, s)
	}
	sort.Slice(out, func(i, j int) bool { return out[i].name < out[j].name })
	return out
}

func hasQuant(ts []*Term) bool {
	seen := map[*Term]bool{}
	q := false
	for _, t := range ts {
		Walk(t, seen, func(x *Term) {
			if x.Op == "forall" || x.Op == "exists" {
				q = true
			}
		})
	}
	return q
}
