package main

// Go operators on symbolic values, shared by the SSA executor and the contract evaluator.

import (
	"fmt"
	"go/constant"
	"go/token"
	"go/types"
	"math/big"
)

type opErr string

func opFail(f string, a ...interface{}) { panic(opErr(fmt.Sprintf(f, a...))) }

func isString(t types.Type) bool {
	b, ok := t.Underlying().(*types.Basic)
	return ok && (b.Kind() == types.String || b.Kind() == types.UntypedString)
}
func isBool(t types.Type) bool {
	b, ok := t.Underlying().(*types.Basic)
	return ok && (b.Kind() == types.Bool || b.Kind() == types.UntypedBool)
}
func isUnsafePtr(t types.Type) bool {
	b, ok := t.Underlying().(*types.Basic)
	return ok && b.Kind() == types.UnsafePointer
}
func isIface(t types.Type) bool {
	_, ok := t.Underlying().(*types.Interface)
	if _, tp := t.(*types.TypeParam); tp {
		return true
	}
	return ok
}
func isByteSlice(t types.Type) bool {
	s, ok := t.Underlying().(*types.Slice)
	if !ok {
		return false
	}
	b, ok := s.Elem().Underlying().(*types.Basic)
	return ok && b.Kind() == types.Uint8
}

var byteType = types.Typ[types.Uint8]

func (st *State) constVal(t types.Type, c constant.Value) Val {
	e := st.e
	if c == nil {
		return e.zeroVal(t)
	}
	switch {
	case isBool(t):
		return VScalar{Bool(constant.BoolVal(c))}
	case isString(t):
		return st.stringLit(constant.StringVal(c))
	}
	if n, ok := numOf(t); ok {
		if n.Float {
			f, _ := constant.Float64Val(constant.ToFloat(c))
			return VScalar{Const(e.ar.Sort(n), new(big.Int).SetUint64(float64bits(f, n.Bits)))}
		}
		iv := constant.ToInt(c)
		if iv.Kind() != constant.Int {
			opFail("non-integer constant %v for %s", c, t)
		}
		b, ok := new(big.Int).SetString(iv.ExactString(), 10)
		if !ok {
			opFail("bad constant %v", c)
		}
		return VScalar{e.ar.Const(n, b)}
	}
	opFail("constVal: unsupported constant type %s", t)
	return nil
}

// stringLit: a literal string is an immutable array with known bytes
func (st *State) stringLit(s string) Val {
	e := st.e
	I := e.ar.I()
	bs := e.ar.ByteSort()
	if len(s) == 0 {
		return VString{Reg: e.ar.IConst(0), Arr: ConstArr(ArraySort(I, bs), ConstI(bs, 0)), Off: e.ar.IConst(0), Len: e.ar.IConst(0)}
	}
	h := fnv(s)
	arr := Var(fmt.Sprintf("strlit_%x_%d", h, len(s)), ArraySort(I, bs))
	if len(s) <= 48 {
		for i := 0; i < len(s); i++ {
			st.assume(Eq(Select(arr, e.ar.IConst(int64(i))), ConstI(bs, int64(s[i]))))
		}
	}
	return VString{Reg: e.ar.IConst(int64(1000000 + h%1000000)), Arr: arr, Off: e.ar.IConst(0), Len: e.ar.IConst(int64(len(s)))}
}

func fnv(s string) uint32 {
	h := uint32(2166136261)
	for i := 0; i < len(s); i++ {
		h ^= uint32(s[i])
		h *= 16777619
	}
	return h
}

func (st *State) stringEq(a, b VString) *Term {
	e := st.e
	saved := e.ar.SideCond
	e.ar.SideCond = nil
	defer func() { e.ar.SideCond = saved }()
	if a.Arr.Key() == b.Arr.Key() && a.Off.Key() == b.Off.Key() {
		return Eq(a.Len, b.Len)
	}
	if a.Len.IsConst() && a.Len.Val.Sign() == 0 {
		return Eq(b.Len, a.Len)
	}
	if b.Len.IsConst() && b.Len.Val.Sign() == 0 {
		return Eq(a.Len, b.Len)
	}
	// short constant length: unroll
	for _, p := range [][2]VString{{a, b}, {b, a}} {
		if p[0].Len.IsConst() && p[0].Len.Val.IsInt64() && p[0].Len.Val.Int64() <= 16 {
			n := p[0].Len.Val.Int64()
			cs := []*Term{Eq(a.Len, b.Len)}
			for i := int64(0); i < n; i++ {
				k := e.ar.IConst(i)
				cs = append(cs, Eq(SelectD(p[0].Arr, e.ar.Bin(token.ADD, tInt, p[0].Off, k)), SelectD(p[1].Arr, e.ar.Bin(token.ADD, tInt, p[1].Off, k))))
			}
			return And(cs...)
		}
	}
	e.nfresh++
	k := Var(fmt.Sprintf("$b_k_%d", e.nfresh), e.ar.I())
	body := Implies(And(e.ar.Cmp(token.LEQ, tInt, e.ar.IConst(0), k), e.ar.Cmp(token.LSS, tInt, k, a.Len)),
		Eq(Select(a.Arr, e.ar.Bin(token.ADD, tInt, a.Off, k)), Select(b.Arr, e.ar.Bin(token.ADD, tInt, b.Off, k))))
	return And(Eq(a.Len, b.Len), Forall([]*Term{k}, body))
}

// binop implements Go binary operators on values of static type t (operand type).
func (st *State) binop(op token.Token, t types.Type, x, y Val, yt types.Type) Val {
	e := st.e
	switch op {
	case token.EQL, token.NEQ:
		var eq *Term
		switch a := x.(type) {
		case VString:
			eq = st.stringEq(a, y.(VString))
		case VSlice:
			// only comparison with nil is legal
			eq = Eq(a.Reg, y.(VSlice).Reg)
		case VPtr:
			b := y.(VPtr)
			if a.Cell != nil || b.Cell != nil || a.Global != nil || b.Global != nil {
				opFail("comparison of cell pointers")
			}
			eq = And(Eq(a.Reg, b.Reg), Eq(a.Idx, b.Idx))
		default:
			eq = e.eqVal(t, x, y)
		}
		if op == token.NEQ {
			eq = Not(eq)
		}
		return VScalar{eq}
	}
	if isBool(t) {
		a, b := x.(VScalar).T, y.(VScalar).T
		switch op {
		case token.LAND, token.AND:
			return VScalar{And(a, b)}
		case token.LOR, token.OR:
			return VScalar{Or(a, b)}
		case token.XOR:
			return VScalar{Not(Eq(a, b))}
		}
		opFail("bool op %s", op)
	}
	if isString(t) {
		if op == token.ADD {
			return st.stringConcat(x.(VString), y.(VString))
		}
		opFail("string op %s unsupported", op)
	}
	n, ok := numOf(t)
	if !ok {
		opFail("binop %s on %s", op, t)
	}
	a, b := x.(VScalar).T, y.(VScalar).T
	switch op {
	case token.LSS, token.LEQ, token.GTR, token.GEQ:
		return VScalar{e.ar.Cmp(op, n, a, b)}
	case token.SHL, token.SHR:
		yn, _ := numOf(yt)
		if e.ar.Mode == ModeBV {
			if yn.Signed && yn.Bits != n.Bits {
				// signed shift counts are non-negative by Go's run-time check; treat as unsigned
				yn.Signed = false
			}
			b = e.ar.ShiftAmt(yn, n, b)
		}
		return VScalar{e.ar.Bin(op, n, a, b)}
	}
	return VScalar{e.ar.Bin(op, n, a, b)}
}

func (st *State) stringConcat(a, b VString) Val {
	e := st.e
	I := e.ar.I()
	saved := e.ar.SideCond
	e.ar.SideCond = nil
	defer func() { e.ar.SideCond = saved }()
	if a.Len.IsConst() && a.Len.Val.Sign() == 0 {
		return b
	}
	if b.Len.IsConst() && b.Len.Val.Sign() == 0 {
		return a
	}
	// concatenation is a deterministic function of its operands (congruence makes equal
	// operands give equal results); its content is fixed by two quantified facts
	args := []*Term{a.Arr, a.Off, a.Len, b.Arr, b.Off, b.Len}
	arr := App("cat_arr", ArraySort(I, e.ar.ByteSort()), args...)
	k := Var("$b_kcat", I)
	z := e.ar.IConst(0)
	st.assume(Forall([]*Term{k}, Implies(And(e.ar.Cmp(token.LEQ, tInt, z, k), e.ar.Cmp(token.LSS, tInt, k, a.Len)),
		Eq(Select(arr, k), Select(a.Arr, e.ar.Bin(token.ADD, tInt, a.Off, k))))))
	st.assume(Forall([]*Term{k}, Implies(And(e.ar.Cmp(token.LEQ, tInt, z, k), e.ar.Cmp(token.LSS, tInt, k, b.Len)),
		Eq(Select(arr, e.ar.Bin(token.ADD, tInt, a.Len, k)), Select(b.Arr, e.ar.Bin(token.ADD, tInt, b.Off, k))))))
	return VString{Reg: App("cat_reg", I, args...), Arr: arr, Off: z, Len: e.ar.Bin(token.ADD, tInt, a.Len, b.Len)}
}

func (st *State) unop(op token.Token, t types.Type, x Val) Val {
	e := st.e
	switch op {
	case token.NOT:
		return VScalar{Not(x.(VScalar).T)}
	case token.SUB:
		n, _ := numOf(t)
		if n.Float {
			return VScalar{App("fneg", x.(VScalar).T.S, x.(VScalar).T)}
		}
		return VScalar{e.ar.Neg(n, x.(VScalar).T)}
	case token.XOR:
		n, _ := numOf(t)
		if e.ar.Mode == ModeBV {
			return VScalar{BVNot(x.(VScalar).T)}
		}
		if n.Signed {
			return VScalar{IntOp("-", IntOp("-", ConstI(IntSort, 0), x.(VScalar).T), ConstI(IntSort, 1))}
		}
		return VScalar{IntOp("-", Const(IntSort, n.Max()), x.(VScalar).T)}
	}
	opFail("unop %s", op)
	return nil
}

// convert implements Go conversions T(x).
func (st *State) convert(from, to types.Type, x Val) Val {
	e := st.e
	fu, tu := from.Underlying(), to.Underlying()
	// numeric
	if fn, ok := numOf(from); ok {
		if tn, ok2 := numOf(to); ok2 {
			return VScalar{e.ar.Conv(fn, tn, x.(VScalar).T)}
		}
		if isUnsafePtr(to) {
			opFail("uintptr -> unsafe.Pointer conversion unsupported")
		}
		if isString(to) {
			opFail("integer -> string conversion unsupported")
		}
	}
	if isBool(from) && isBool(to) {
		return x
	}
	switch {
	case isString(from) && isString(to):
		return x
	case isString(to) && isByteSlice(from):
		s := x.(VSlice)
		return VString{Reg: st.freshID("strreg"), Arr: st.regionArr(byteType, s.Reg), Off: s.Off, Len: s.Len}
	case isByteSlice(to) && isString(from):
		s := x.(VString)
		reg := st.freshID("breg")
		st.setRegionArr(byteType, reg, s.Arr)
		st.assume(Eq(e.rsize(reg), e.ar.Bin(token.ADD, tInt, s.Off, s.Len)))
		// a nil/empty result is still non-nil data pointer in Go only if len>0; []byte("") is non-nil empty
		return VSlice{Reg: reg, Off: s.Off, Len: s.Len, Cap: s.Len}
	}
	if isUnsafePtr(to) {
		switch p := x.(type) {
		case VPtr:
			if pt, ok := fu.(*types.Pointer); ok {
				if b, ok := pt.Elem().Underlying().(*types.Basic); ok && b.Kind() == types.Uint8 && p.Reg != nil {
					p.ByteView = true
				} else if p.Reg != nil {
					p.Orig = pt.Elem()
				}
			}
			return p
		case VRef:
			return VPtr{ObjRef: p.T} // struct pointer viewed as unsafe.Pointer
		}
	}
	if isUnsafePtr(from) {
		p := x.(VPtr)
		if _, ok := isStructPtr(to); ok {
			if p.ObjRef != nil {
				return VRef{p.ObjRef}
			}
			opFail("unsafe.Pointer -> struct pointer conversion unsupported")
		}
		if _, ok := tu.(*types.Pointer); ok {
			return p
		}
		if n, ok := numOf(to); ok && !n.Float {
			if p.Reg == nil {
				opFail("address of local cell / field taken as integer")
			}
			// uintptr(p) = addr(reg) + idx
			idx := p.Idx
			var a *Term
			if e.ar.Mode == ModeBV {
				a = BVOp("bvadd", e.addr(p.Reg), idx)
			} else {
				a = IntOp("+", App("addrI", IntSort, p.Reg), idx)
			}
			return VScalar{a}
		}
	}
	if _, ok := fu.(*types.Pointer); ok {
		if _, ok2 := tu.(*types.Pointer); ok2 {
			return x
		}
	}
	if _, ok := fu.(*types.Slice); ok {
		if _, ok2 := tu.(*types.Slice); ok2 {
			return x
		}
	}
	if types.Identical(fu, tu) {
		return x
	}
	opFail("convert %s -> %s unsupported", from, to)
	return nil
}


func float64bits(f float64, bits int) uint64 {
	if bits == 32 {
		return uint64(mathFloat32bits(float32(f)))
	}
	return mathFloat64bits(f)
}
