package main

import (
	"os/signal"
	"syscall"
	"encoding/json"
	"flag"
	"fmt"
	"os"
	"path/filepath"
	"regexp"
	"runtime"
	"runtime/pprof"
	"sort"
	"strconv"
	"strings"
	"time"

	"golang.org/x/tools/go/ssa"
)

type obSummary struct {
	Name      string   `json:"obligation"`
	Kind      string   `json:"kind"`
	Function  string   `json:"function"`
	Clause    string   `json:"clause"`
	Pos       string   `json:"pos,omitempty"`
	Instances int      `json:"instances"`
	Status    string   `json:"status"`
	Solvers   []string `json:"solvers"`
	TimeS     float64  `json:"solver_time_s"`
}

var cleanupDir string

func main() {
	repo := flag.String("repo", "/repo", "repository root")
	prop := flag.String("prop", "", "property id (empty: all contracts)")
	tier := flag.String("tier", "quick", "quick|thorough")
	evidence := flag.String("evidence", "", "evidence file to write")
	replayDir := flag.String("replays", "", "directory for replay files")
	funcPat := flag.String("func", "", "only functions whose qualified name matches this regexp")
	list := flag.Bool("list", false, "list contracts and exit")
	verbose := flag.Bool("v", false, "verbose")
	keep := flag.String("keep", "", "keep SMT files in this directory")
	timeoutS := flag.Int("timeout", 0, "per-obligation solver timeout in seconds (default: 10 quick, 60 thorough)")
	fuel := flag.Int("fuel", 2, "unfolding depth of recursive spec functions")
	known := flag.String("known", "", "known findings file")
	noReplay := flag.Bool("noreplay", false, "do not try to replay counterexamples")
	forceArith := flag.String("arith", "", "force arithmetic mode (bv|int) for all functions (experiments)")
	cpuprof := flag.String("cpuprofile", "", "write cpu profile")
	flag.Parse()
	if *cpuprof != "" {
		f, _ := os.Create(*cpuprof)
		pprof.StartCPUProfile(f)
		defer pprof.StopCPUProfile()
	}

	t0 := time.Now()
	seed := 0
	if s := os.Getenv("VERIF_SEED"); s != "" {
		seed, _ = strconv.Atoi(s)
	}
	e, err := NewEngine(*repo)
	if err != nil {
		fmt.Fprintln(os.Stderr, "govc: load failed:", err)
		os.Exit(2)
	}
	e.tier = *tier
	e.verbose = *verbose
	e.fuel = *fuel
	e.computeMutableGlobals()

	type job struct {
		fn   *ssa.Function
		spec *FuncSpec
	}
	var jobs []job
	var pat *regexp.Regexp
	if *funcPat != "" {
		pat = regexp.MustCompile(*funcPat)
	}
	var pkgPaths []string
	for p := range e.specs {
		pkgPaths = append(pkgPaths, p)
	}
	sort.Strings(pkgPaths)
	nContracts := 0
	for _, pp := range pkgPaths {
		ps := e.specs[pp]
		for _, key := range ps.sortedFuncKeys() {
			spec := ps.Funcs[key]
			nContracts++
			fn := e.findFunc(pp, key)
			if fn == nil {
				fmt.Fprintf(os.Stderr, "govc: contract %s:%d names %s.%s which does not exist in the package\n", spec.File, spec.Line, pp, key)
				os.Exit(2)
			}
			if *list {
				fmt.Printf("%s.%s props=%v trusted=%v requires=%d ensures=%d loops=%d\n", e.shortPkg(pp), key, spec.Props, spec.Trusted, len(spec.Requires), len(spec.Ensures), len(spec.Loops))
				continue
			}
			if spec.Trusted || spec.Inline {
				continue
			}
			if *prop != "" && !specServes(spec, *prop) {
				continue
			}
			if pat != nil && !pat.MatchString(e.qualName(fn)) {
				continue
			}
			jobs = append(jobs, job{fn, spec})
		}
	}
	if *list {
		return
	}
	var engineErrs []string
	for _, j := range jobs {
		if *forceArith != "" {
			j.spec.ArithSet = true
			j.spec.Arith = ModeBV
			if *forceArith == "int" {
				j.spec.Arith = ModeInt
			}
		}
		if err := e.VerifyFunc(j.fn, j.spec, *prop); err != nil {
			engineErrs = append(engineErrs, err.Error())
			e.obligations = append(e.obligations, &Obligation{Name: e.qualName(j.fn) + "/engine", Func: e.qualName(j.fn), Kind: "engine",
				Text: "function is inside the verifiable subset: " + err.Error(), Status: "error", Output: err.Error(), Goal: False})
		}
	}
	dir := *keep
	keepSMT = dir != ""
	if dir == "" {
		dir, err = os.MkdirTemp("", "govc-smt-")
		if err != nil {
			fmt.Fprintln(os.Stderr, err)
			os.Exit(2)
		}
		cleanupDir = dir
		defer os.RemoveAll(dir)
		sigc := make(chan os.Signal, 1)
		signal.Notify(sigc, syscall.SIGINT, syscall.SIGTERM, syscall.SIGHUP)
		go func() {
			<-sigc
			os.RemoveAll(dir)
			os.Exit(2)
		}()
	} else {
		os.MkdirAll(dir, 0o755)
	}
	timeout := 20 * time.Second
	if *tier == "thorough" {
		timeout = 120 * time.Second
	}
	if *timeoutS > 0 {
		timeout = time.Duration(*timeoutS) * time.Second
	}
	e.solveAll(dir, timeout, runtime.NumCPU())

	// aggregate
	byName := map[string]*obSummary{}
	var order []string
	var failed []*Obligation
	nDischarged, nTotal := 0, 0
	solverTime := 0.0
	funcs := map[string]bool{}
	vacuous := []string{}
	retCov, retReach := map[string]int{}, map[string]int{}
	callBefore, callAfter := map[string]string{}, map[string]string{}
	defer func() {}()
	for _, ob := range e.obligations {
		solverTime += ob.Time
		funcs[ob.Func] = true
		if ob.Cover {
			if strings.HasSuffix(ob.Name, "/cover-return") {
				if *verbose {
					fmt.Printf("  cover %s %s path=%s\n", ob.Status, ob.Name, ob.Path)
				}
				retCov[ob.Name]++
				if ob.Status != "unsat" {
					retReach[ob.Name]++
				}
				continue
			}
			if strings.HasSuffix(ob.Name, "/before") {
				callBefore[strings.TrimSuffix(ob.Name, "/before")] = ob.Status
				continue
			}
			if strings.HasSuffix(ob.Name, "/after") {
				callAfter[strings.TrimSuffix(ob.Name, "/after")] = ob.Status
				continue
			}
			if ob.Status == "unsat" {
				vacuous = append(vacuous, ob.Name)
			}
			continue
		}
		nTotal++
		s := byName[ob.Name]
		if s == nil {
			s = &obSummary{Name: ob.Name, Kind: ob.Kind, Function: ob.Func, Clause: ob.Text, Pos: ob.Pos, Status: "discharged"}
			byName[ob.Name] = s
			order = append(order, ob.Name)
		}
		s.Instances++
		s.TimeS += ob.Time
		if !containsStr(s.Solvers, ob.Solver) {
			s.Solvers = append(s.Solvers, ob.Solver)
		}
		if ob.Status == "unsat" {
			nDischarged++
		} else {
			if s.Status == "discharged" {
				s.Status = ob.Status
				failed = append(failed, ob)
			}
		}
	}
	sort.Strings(order)
	if *verbose {
		for _, n := range order {
			s := byName[n]
			fmt.Printf("  %-11s %-70s x%d %.2fs %v\n", s.Status, s.Name, s.Instances, s.TimeS, s.Solvers)
		}
	}
	for _, n := range e.notes {
		fmt.Println("note:", n)
	}
	if *verbose {
		for _, ob := range e.obligations {
			if ob.Time > 2 || (ob.Status != "unsat" && !ob.Cover) {
				fmt.Printf("  slow %.1fs %s %s [%s] %s {%s} path=%s\n", ob.Time, ob.Status, ob.Name, ob.Solver, ob.Text, filepath.Base(ob.SMT), ob.Path)
			}
		}
	}
	violations := 0
	kf := loadKnown(*known)
	exit := 0
	{
		var names []string
		for n := range retCov {
			names = append(names, n)
		}
		sort.Strings(names)
		for _, n := range names {
			if retReach[n] == 0 {
				vacuous = append(vacuous, n)
			}
		}
		names = nil
		for n := range callAfter {
			names = append(names, n)
		}
		sort.Strings(names)
		for _, n := range names {
			// reachable (sat) before the call, unreachable (unsat) after assuming the callee's contract
			if callAfter[n] == "unsat" && callBefore[n] != "unsat" {
				vacuous = append(vacuous, n)
			}
		}
	}
	if len(vacuous) > 0 {
		fmt.Printf("ENGINE-ERROR: vacuous proof (contradictory requires/globals/assumed contracts: no return is reachable): %v\n", vacuous)
		exit = 2
	}
	for _, ob := range failed {
		pid := *prop
		if pid == "" {
			pid = "ALL"
		}
		if k := kf.match(pid, ob.Name); k != nil && k.Status == "known" {
			fmt.Printf("KNOWN-FINDING: property=%s %s (%s)\n", pid, k.What, ob.Name)
			continue
		}
		violations++
		tail := " no-failing-input-found"
		if ob.Status == "sat" && !*noReplay {
			ob.RR = e.replay(ob, timeout)
			if ob.RR.Reproduced {
				tail = ""
			}
		}
		rp := writeReplay(*replayDir, pid, ob)
		fmt.Printf("VIOLATION property=%s replay=%s%s\n", pid, rp, tail)
		fmt.Printf("  obligation %s [%s] %s: %s\n  at %s, solver %s said %s\n", ob.Name, ob.Kind, ob.Func, ob.Text, ob.Pos, ob.Solver, ob.Status)
		if ob.RR != nil {
			if ob.RR.Reproduced {
				fmt.Printf("  replayed on the real code with inputs %v\n", ob.RR.Inputs)
			} else {
				fmt.Printf("  replay: %s\n", ob.RR.Why)
			}
		}
		exit = 1
	}
	if len(vacuous) > 0 {
		exit = 2 // nothing a vacuous run reports can be trusted
	}
	if nContracts == 0 || (len(jobs) > 0 && nTotal == 0) {
		fmt.Println("ENGINE-ERROR: no obligations were generated")
		exit = 2
	}
	if len(jobs) == 0 {
		fmt.Printf("ENGINE-ERROR: no function under contract serves property %q\n", *prop)
		exit = 2
	}
	if *verbose {
		fmt.Printf("  smt build time %.1fs\n", buildTime.Seconds())
	}
	wall := time.Since(t0).Seconds()
	fmt.Printf("govc: property=%s tier=%s functions=%d obligations=%d (distinct %d) discharged=%d failed=%d solver_time=%.1fs wall=%.1fs\n",
		*prop, *tier, len(jobs), nTotal, len(order), nDischarged, violations, solverTime, wall)

	if *evidence != "" {
		var fnames []string
		for f := range funcs {
			fnames = append(fnames, f)
		}
		sort.Strings(fnames)
		var samples []interface{}
		var all []interface{}
		byBackend := map[string]int{}
		for i, n := range order {
			s := byName[n]
			for _, sv := range s.Solvers {
				byBackend[sv] += 1
			}
			all = append(all, s)
			if i%max(1, len(order)/12) == 0 {
				samples = append(samples, s)
			}
		}
		var trusted []string
		for t := range e.trustedUsed {
			trusted = append(trusted, "contract assumed (not verified here): "+t)
		}
		sort.Strings(trusted)
		trusted = append(trusted, "go/ssa translation of Go source (golang.org/x/tools v0.29.0, NaiveForm)", "SMT solvers z3 5.1.0 / z3 4.8.12 / cvc5 1.0 (an obligation counts as discharged on one solver's unsat)",
			"govc's own VC generator (this engine): memory model, builtin semantics of len/cap/copy/append/make and string conversions")
		var assumptions []string
		for a := range e.assumptions {
			assumptions = append(assumptions, a)
		}
		sort.Strings(assumptions)
		assumptions = append(assumptions, "GOARCH in {amd64, arm64}: int/uint/uintptr are 64-bit, little-endian", "allocations succeed; lengths and capacities are at most 2^47; every allocation lies below 2^62",
			"termination is proved only where a decreases clause is given", "no concurrent mutation (sequential semantics)")
		for _, n := range e.notes {
			assumptions = append(assumptions, "engine note: "+n)
		}
		ev := map[string]interface{}{
			"property_id": *prop,
			"tier":        *tier,
			"seed":        seed,
			"level":       "proof",
			"coverage": map[string]interface{}{
				"obligations":              nTotal,
				"discharged":               nDischarged,
				"distinct_obligations":     len(order),
				"checker_cmd":              strings.Join(os.Args, " "),
				"trusted_base":             trusted,
				"functions_under_contract": fnames,
				"by_backend":               byBackend,
				"solver_time_s":            solverTime,
				"samples":                  samples,
				"all_obligations":          all,
				"cover_queries":            len(e.obligations) - nTotal,
				"vacuous":                  vacuous,
			},
			"assumptions": assumptions,
			"wall_s":      wall,
			"violations":  violations,
		}
		data, _ := json.MarshalIndent(ev, "", " ")
		os.MkdirAll(filepath.Dir(*evidence), 0o755)
		if err := os.WriteFile(*evidence, data, 0o644); err != nil {
			fmt.Fprintln(os.Stderr, err)
			os.Exit(2)
		}
	}
	if *cpuprof != "" {
		pprof.StopCPUProfile()
	}
	if cleanupDir != "" {
		os.RemoveAll(cleanupDir)
	}
	os.Exit(exit)
}

func specServes(spec *FuncSpec, prop string) bool {
	if containsStr(spec.Props, prop) {
		return true
	}
	for _, cs := range [][]*Clause{spec.Requires, spec.Ensures} {
		for _, c := range cs {
			if containsStr(c.Tags, prop) {
				return true
			}
		}
	}
	for _, l := range spec.Loops {
		for _, c := range l.Inv {
			if containsStr(c.Tags, prop) {
				return true
			}
		}
	}
	return false
}

type knownFinding struct {
	Property   string `json:"property"`
	Status     string `json:"status"`
	Obligation string `json:"obligation"`
	What       string `json:"what"`
	Commit     string `json:"commit,omitempty"`
	Input      string `json:"input,omitempty"`
}

type knownFile struct {
	Findings []knownFinding `json:"findings"`
}

func loadKnown(path string) *knownFile {
	kf := &knownFile{}
	if path == "" {
		return kf
	}
	data, err := os.ReadFile(path)
	if err != nil {
		return kf
	}
	_ = json.Unmarshal(data, kf)
	return kf
}

func (k *knownFile) match(prop, ob string) *knownFinding {
	for i := range k.Findings {
		f := &k.Findings[i]
		if f.Obligation == ob && (f.Property == prop || prop == "ALL") {
			return f
		}
	}
	return nil
}

func writeReplay(dir, prop string, ob *Obligation) string {
	if dir == "" {
		dir = "replays"
	}
	d := filepath.Join(dir, prop)
	os.MkdirAll(d, 0o755)
	name := strings.NewReplacer("/", "_", "#", "-", "@", "_at_", "*", "", "(", "", ")", "").Replace(ob.Name)
	p := filepath.Join(d, name+".json")
	out := ob.Output
	if len(out) > 4000 {
		out = out[:4000]
	}
	model := ob.Model
	if len(model) > 20000 {
		model = model[:20000]
	}
	smt := ""
	if ob.SMT != "" {
		if data, err := os.ReadFile(ob.SMT); err == nil && len(data) < 2000000 {
			smt = string(data)
		}
	}
	rec := map[string]interface{}{
		"property": prop, "obligation": ob.Name, "function": ob.Func, "kind": ob.Kind, "clause": ob.Text, "pos": ob.Pos, "path": ob.Path,
		"solver": map[string]interface{}{"name": ob.Solver, "status": ob.Status, "time_s": ob.Time, "stdout": out},
		"model":  model, "smt2": smt, "reproduced": false,
		"outcome": "obligation not discharged; no concrete failing input was produced (no-failing-input-found)",
	}
	if ob.RR != nil {
		rec["replay_attempted"] = ob.RR.Attempted
		rec["reproduced"] = ob.RR.Reproduced
		rec["replay_test"] = ob.RR.Test
		rec["replay_output"] = ob.RR.Output
		rec["inputs"] = ob.RR.Inputs
		if ob.RR.Reproduced {
			rec["outcome"] = "counterexample replayed against the real code: the injected in-package test fails"
		} else {
			rec["outcome"] = "obligation not discharged; replay: " + ob.RR.Why + " (no-failing-input-found)"
		}
	}
	data, _ := json.MarshalIndent(rec, "", " ")
	os.WriteFile(p, data, 0o644)
	abs, err := filepath.Abs(p)
	if err != nil {
		return p
	}
	return abs
}
