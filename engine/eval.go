package main

// Symbolic evaluation of contract expressions.

import (
	"fmt"
	"go/constant"
	"go/token"
	"go/types"
	"strings"

	"golang.org/x/tools/go/ssa"
)

type TV struct {
	V       Val
	T       types.Type
	Untyped constant.Value
	IsNil   bool
	TypeRef types.Type // the expression denotes a type
	Pkg     string     // the expression denotes a package (import path)
	FnRef   *ssa.Function
	PredRef *Pred
	PredPkg string // package whose contract file declares PredRef (when referenced as pkg.pred)
	Builtin string
}

type Env struct {
	x     *Exec
	st    *State
	heap  map[string]*Term
	old   map[string]*Term
	vars  map[string]TV
	ovars map[string]TV // values of names inside old()
	fr    *Frame
	pkg   *types.Package
	inOld bool
	bound []*Term
}

func (en *Env) with(name string, tv TV) *Env {
	n := *en
	n.vars = make(map[string]TV, len(en.vars)+1)
	for k, v := range en.vars {
		n.vars[k] = v
	}
	n.vars[name] = tv
	return &n
}

type evalErr string

func (en *Env) fail(f string, a ...interface{}) { panic(evalErr(fmt.Sprintf(f, a...))) }

var basicTypes = map[string]types.Type{
	"int": types.Typ[types.Int], "int8": types.Typ[types.Int8], "int16": types.Typ[types.Int16], "int32": types.Typ[types.Int32], "int64": types.Typ[types.Int64],
	"uint": types.Typ[types.Uint], "uint8": types.Typ[types.Uint8], "uint16": types.Typ[types.Uint16], "uint32": types.Typ[types.Uint32], "uint64": types.Typ[types.Uint64],
	"uintptr": types.Typ[types.Uintptr], "byte": types.Typ[types.Uint8], "bool": types.Typ[types.Bool], "string": types.Typ[types.String], "float64": types.Typ[types.Float64],
	"rune": types.Typ[types.Int32],
}

var builtinFns = map[string]bool{"len": true, "cap": true, "old": true, "region": true, "offset": true, "fresh": true, "allocated": true,
	"rsize": true, "istype": true, "astype": true, "bytesat": true, "same": true, "addr": true, "avail": true, "typeid": true, "strof": true,
	"nilslice": true, "maplen": true, "bytesof": true, "isnil": true, "implements": true, "snap": true, "eqbytes": true, "writable": true, "apply": true, "ufbool": true, "ufint": true, "ufstr": true, "strwin": true, "loopmeasure": true, "ufcontent": true}

func (en *Env) importPath(name string) string {
	if name == "vs" {
		return specPkgPath
	}
	if en.pkg != nil {
		for _, imp := range en.pkg.Imports() {
			if imp.Name() == name {
				return imp.Path()
			}
		}
		if en.pkg.Name() == name {
			return en.pkg.Path()
		}
	}
	// any loaded package with that name (module packages first)
	var cand string
	for p, tp := range en.x.e.tpkgs {
		if tp.Name == name {
			if strings.HasPrefix(p, modulePath) {
				return p
			}
			cand = p
		}
	}
	return cand
}

func (en *Env) ident(name string) TV {
	e := en.x.e
	if en.inOld {
		if tv, ok := en.ovars[name]; ok {
			return tv
		}
	}
	if tv, ok := en.vars[name]; ok {
		return tv
	}
	if en.fr != nil && !en.inOld {
		if tv, ok := en.x.cellByName(en.st, en.fr, name); ok {
			return tv
		}
	}
	switch name {
	case "true":
		return TV{V: VScalar{True}, T: types.Typ[types.Bool]}
	case "false":
		return TV{V: VScalar{False}, T: types.Typ[types.Bool]}
	case "nil":
		return TV{IsNil: true}
	}
	if t, ok := basicTypes[name]; ok {
		return TV{TypeRef: t}
	}
	if builtinFns[name] {
		return TV{Builtin: name}
	}
	if ps := e.specs[en.pkgPath()]; ps != nil {
		if p := ps.Preds[name]; p != nil {
			return TV{PredRef: p}
		}
	}
	if en.pkg != nil {
		if obj := en.pkg.Scope().Lookup(name); obj != nil {
			return en.object(obj)
		}
	}
	if p := en.importPath(name); p != "" {
		return TV{Pkg: p}
	}
	// predicates of other module packages (e.g. shared vocabulary)
	for _, ps := range e.specs {
		if p := ps.Preds[name]; p != nil {
			return TV{PredRef: p}
		}
	}
	en.fail("unknown identifier %q", name)
	return TV{}
}

func (en *Env) pkgPath() string {
	if en.pkg != nil {
		return en.pkg.Path()
	}
	return ""
}

func (en *Env) object(obj types.Object) TV {
	e := en.x.e
	switch o := obj.(type) {
	case *types.Const:
		if b, ok := o.Type().Underlying().(*types.Basic); ok && b.Info()&types.IsUntyped != 0 {
			return TV{Untyped: o.Val()}
		}
		return TV{V: en.st.constVal(o.Type(), o.Val()), T: o.Type()}
	case *types.Var:
		sp := e.pkgs[o.Pkg().Path()]
		if sp == nil {
			en.fail("package of %s not loaded", o.Name())
		}
		g, ok := sp.Members[o.Name()].(*ssa.Global)
		if !ok {
			en.fail("%s is not a package-level variable", o.Name())
		}
		t := o.Type()
		return TV{V: e.globalVal(en.st, g, t), T: t}
	case *types.TypeName:
		return TV{TypeRef: o.Type()}
	case *types.Func:
		fn := e.prog.FuncValue(o)
		if fn == nil {
			en.fail("no SSA for function %s", o.Name())
		}
		return TV{FnRef: fn}
	}
	en.fail("unsupported object %s", obj)
	return TV{}
}

func (en *Env) eval(ex Expr) TV {
	e := en.x.e
	switch v := ex.(type) {
	case EIdent:
		return en.ident(v.Name)
	case ELit:
		return TV{Untyped: v.V}
	case ESel:
		b := en.eval(v.X)
		if b.Pkg != "" {
			tp := e.tpkgs[b.Pkg]
			if tp == nil {
				en.fail("package %s not loaded", b.Pkg)
			}
			obj := tp.Types.Scope().Lookup(v.Sel)
			if obj == nil {
				// a predicate declared in the other package's contract file
				if ps := e.specs[b.Pkg]; ps != nil {
					if pr := ps.Preds[v.Sel]; pr != nil {
						return TV{PredRef: pr, PredPkg: b.Pkg}
					}
				}
				en.fail("%s.%s not found", b.Pkg, v.Sel)
			}
			return en.object(obj)
		}
		return en.selector(b, v.Sel)
	case ECall:
		return en.call(v)
	case EIndex:
		b := en.eval(v.X)
		i := en.toInt(en.eval(v.I))
		return en.index(b, i)
	case ESlice:
		b := en.eval(v.X)
		return en.sliceExpr(b, v)
	case EUnary:
		return en.unary(v)
	case EBinary:
		return en.binary(v)
	case ECond:
		c := en.boolOf(en.eval(v.C))
		a, b := en.eval(v.A), en.eval(v.B)
		a, b = en.unify(a, b)
		return TV{V: iteVal(e, a.T, c, a.V, b.V), T: a.T}
	case EQuant:
		sub := *en
		sub.vars = make(map[string]TV, len(en.vars)+len(v.Vars))
		for k, x := range en.vars {
			sub.vars[k] = x
		}
		var bound []*Term
		for _, q := range v.Vars {
			t, ok := basicTypes[q.Type]
			if !ok {
				en.fail("unsupported bound variable type %s", q.Type)
			}
			n, _ := numOf(t)
			e.nfresh++
			bv := Var(fmt.Sprintf("$b_%s_%d", q.Name, e.nfresh), e.ar.Sort(n))
			bound = append(bound, bv)
			sub.vars[q.Name] = TV{V: VScalar{bv}, T: t}
		}
		sub.bound = append(append([]*Term{}, en.bound...), bound...)
		body := sub.boolOf(sub.eval(v.Body))
		if v.Forall {
			return TV{V: VScalar{flattenForall(bound, body)}, T: types.Typ[types.Bool]}
		}
		return TV{V: VScalar{Exists(bound, absolutize(bound, body))}, T: types.Typ[types.Bool]}
	}
	en.fail("unsupported expression %v", ex)
	return TV{}
}

func (en *Env) boolOf(tv TV) *Term {
	if tv.Untyped != nil && tv.Untyped.Kind() == constant.Bool {
		return Bool(constant.BoolVal(tv.Untyped))
	}
	s, ok := tv.V.(VScalar)
	if !ok || s.T.S != BoolSort {
		en.fail("boolean expected")
	}
	return s.T
}

// coerce gives an untyped constant / nil the type t
func (en *Env) coerce(tv TV, t types.Type) TV {
	if tv.IsNil {
		return TV{V: en.x.e.zeroVal(t), T: t}
	}
	if tv.Untyped != nil {
		return TV{V: en.st.constVal(t, tv.Untyped), T: t}
	}
	return tv
}

func (en *Env) defaultType(tv TV) TV {
	if tv.Untyped != nil {
		switch tv.Untyped.Kind() {
		case constant.Bool:
			return en.coerce(tv, types.Typ[types.Bool])
		case constant.String:
			return en.coerce(tv, types.Typ[types.String])
		default:
			return en.coerce(tv, types.Typ[types.Int])
		}
	}
	if tv.IsNil {
		en.fail("untyped nil")
	}
	return tv
}

func (en *Env) unify(a, b TV) (TV, TV) {
	if a.V == nil && b.V == nil {
		return en.defaultType(a), en.defaultType(b)
	}
	if a.V == nil {
		return en.coerce(a, b.T), b
	}
	if b.V == nil {
		return a, en.coerce(b, a.T)
	}
	return a, b
}

func (en *Env) toInt(tv TV) *Term {
	e := en.x.e
	tv = en.defaultType(tv)
	n, ok := numOf(tv.T)
	if !ok {
		en.fail("integer expected")
	}
	return e.ar.Conv(n, tInt, tv.V.(VScalar).T)
}

func (e *Engine) ghostType(name string) types.Type {
	// ghost field names are global: two packages declaring one name must agree on its type
	seen := ""
	for _, ps := range e.specs {
		if ts, ok := ps.Ghosts[name]; ok {
			if seen != "" && seen != ts {
				panic(evalErr("ghost field " + name + " is declared with two types: " + seen + " and " + ts))
			}
			seen = ts
		}
	}
	for _, ps := range e.specs {
		if ts, ok := ps.Ghosts[name]; ok {
			switch ts {
			case "[]byte":
				return types.NewSlice(byteType)
			case "error":
				return types.Universe.Lookup("error").Type()
			}
			if t, ok := basicTypes[ts]; ok {
				return t
			}
			panic(evalErr("unsupported ghost type " + ts))
		}
	}
	return nil
}

// ghostModel finds the abstraction function of ghost field `name` for the dynamic type of a handle.
// It returns the defining clause, the pointer type of the object and its reference.
func (en *Env) ghostModel(b TV, name string) (*Clause, types.Type, *Term) {
	e := en.x.e
	var dt types.Type
	var ref *Term
	switch h := b.V.(type) {
	case VIface:
		if h.Tag.IsConst() && h.Tag.Val.IsInt64() {
			id := int(h.Tag.Val.Int64())
			if id >= 1 && id <= len(e.tagTypes) && e.tagTypes[id-1] != nil {
				dt = e.tagTypes[id-1]
				ref = h.Ref
			}
		}
	case VRef:
		dt = b.T
		ref = h.T
	case VStruct:
		// a value receiver: its identity is the (unknown) box it was called through
		if _, ok := types.Unalias(b.T).(*types.Named); ok {
			dt = b.T
			ref = Var("$valuebox", e.ar.I())
		}
	}
	if dt == nil {
		return nil, nil, nil
	}
	var tn *types.TypeName
	if pt, ok := dt.Underlying().(*types.Pointer); ok {
		switch n := types.Unalias(pt.Elem()).(type) {
		case *types.Named:
			tn = n.Obj()
		}
	} else if n, ok := types.Unalias(dt).(*types.Named); ok {
		// a struct value boxed in an interface: the model may not depend on self's fields
		tn = n.Obj()
	}
	if tn == nil || tn.Pkg() == nil {
		return nil, nil, nil
	}
	ps := e.specs[tn.Pkg().Path()]
	if ps == nil {
		return nil, nil, nil
	}
	m := ps.Models[tn.Name()+"."+name]
	if m == nil {
		return nil, nil, nil
	}
	return m, dt, ref
}

func ghostHandle(v Val) *Term {
	switch h := v.(type) {
	case VIface:
		return h.Ref
	case VRef:
		return h.T
	case VScalar:
		return h.T
	}
	return nil
}

func (en *Env) ghostLoad(name string, h *Term) TV {
	e := en.x.e
	t := e.ghostType(name)
	if t == nil {
		en.fail("undeclared ghost field %s", name)
	}
	ls := e.leaves(t)
	ts := make([]*Term, len(ls))
	for i, l := range ls {
		ts[i] = SelectD(heapGetIn(en.heap, "Gh_"+name[1:]+"_"+l.Name, e.fldSort(l.S)), h)
	}
	v := e.fromLeaves(t, ts)
	if len(en.bound) == 0 {
		// typing facts of ghost values (lengths are non-negative, ...) hold in every state
		switch gv := v.(type) {
		case VString:
			en.st.assume(en.st.stringWF(gv))
		case VSlice:
			en.st.assume(en.st.sliceWF(gv))
		}
	}
	return TV{V: v, T: t}
}

func (en *Env) selector(b TV, sel string) TV {
	st := en.st
	if strings.HasPrefix(sel, "$") {
		if m, dt, ref := en.ghostModel(b, sel); m != nil {
			// the ghost field is defined by the abstraction function of the handle's dynamic type
			sub := *en
			sub.vars = map[string]TV{}
			if _, isPtr := dt.Underlying().(*types.Pointer); isPtr {
				sub.vars["self"] = TV{V: VRef{ref}, T: dt}
			} else {
				// a value boxed in an interface: self is the identity of the box (ghost fields only)
				sub.vars["self"] = TV{V: VRef{ref}, T: types.NewPointer(types.NewStruct(nil, nil))}
			}
			sub.ovars = sub.vars
			sub.fr = nil
			var nt *types.Named
			if pt, ok := dt.Underlying().(*types.Pointer); ok {
				nt, _ = types.Unalias(pt.Elem()).(*types.Named)
			} else {
				nt, _ = types.Unalias(dt).(*types.Named)
			}
			if nt != nil && nt.Obj().Pkg() != nil {
				if tp := en.x.e.tpkgs[nt.Obj().Pkg().Path()]; tp != nil {
					sub.pkg = tp.Types
				}
			}
			return sub.eval(m.E)
		}
		h := ghostHandle(b.V)
		if h == nil {
			en.fail("ghost field %s of a value without identity", sel)
		}
		return en.ghostLoad(sel, h)
	}
	t := b.T
	if t == nil {
		en.fail("selector .%s on untyped value", sel)
	}
	// auto-deref pointers to structs
	if sty, ok := isStructPtr(t); ok {
		ref := b.V.(VRef).T
		elem := t.Underlying().(*types.Pointer).Elem()
		return en.fieldOfObject(elem, sty, ref, sel)
	}
	if sty, ok := t.Underlying().(*types.Struct); ok {
		sv := b.V.(VStruct)
		for i := 0; i < sty.NumFields(); i++ {
			if sty.Field(i).Name() == sel {
				return TV{V: sv.F[i], T: sty.Field(i).Type()}
			}
		}
		// promoted through embedded fields
		for i := 0; i < sty.NumFields(); i++ {
			if sty.Field(i).Embedded() {
				if _, ok := sty.Field(i).Type().Underlying().(*types.Struct); ok {
					if r, ok := en.trySelector(TV{V: sv.F[i], T: sty.Field(i).Type()}, sel); ok {
						return r
					}
				}
			}
		}
	}
	_ = st
	en.fail("no field %s in %s", sel, t)
	return TV{}
}

func (en *Env) trySelector(b TV, sel string) (r TV, ok bool) {
	defer func() {
		if p := recover(); p != nil {
			if _, is := p.(evalErr); is {
				ok = false
				return
			}
			panic(p)
		}
	}()
	return en.selector(b, sel), true
}

func (en *Env) fieldOfObject(elem types.Type, sty *types.Struct, ref *Term, sel string) TV {
	e := en.x.e
	for i := 0; i < sty.NumFields(); i++ {
		if sty.Field(i).Name() == sel {
			ft := sty.Field(i).Type()
			if isStruct(ft) {
				// embedded / nested struct value: give back a pointer-like TV so further selection works
				return TV{V: VRef{e.subRef(elem, i, ref)}, T: types.NewPointer(ft)}
			}
			fv := en.st.loadFieldIn(en.heap, elem, i, ref)
			if sv, ok := fv.(VSlice); ok && len(en.bound) == 0 {
				// typing fact of every slice value stored in memory
				en.st.assume(en.st.sliceWF(sv))
			}
			if sv, ok := fv.(VString); ok && len(en.bound) == 0 {
				en.st.assume(en.st.stringWF(sv))
			}
			if sv, ok := fv.(VScalar); ok && len(en.bound) == 0 {
				// a numeric field holds a value of its type
				if n, isNum := numOf(ft); isNum && !n.Float {
					en.st.assume(e.ar.InRange(n, sv.T))
				}
			}
			return TV{V: fv, T: ft}
		}
	}
	for i := 0; i < sty.NumFields(); i++ {
		if sty.Field(i).Embedded() {
			ft := sty.Field(i).Type()
			if fs, ok := ft.Underlying().(*types.Struct); ok {
				if r, ok := en.tryField(ft, fs, e.subRef(elem, i, ref), sel); ok {
					return r
				}
			}
		}
	}
	en.fail("no field %s in %s", sel, elem)
	return TV{}
}

func (en *Env) tryField(elem types.Type, sty *types.Struct, ref *Term, sel string) (r TV, ok bool) {
	defer func() {
		if p := recover(); p != nil {
			if _, is := p.(evalErr); is {
				ok = false
				return
			}
			panic(p)
		}
	}()
	return en.fieldOfObject(elem, sty, ref, sel), true
}

func (en *Env) index(b TV, i *Term) TV {
	e := en.x.e
	switch v := b.V.(type) {
	case VSlice:
		elem := b.T.Underlying().(*types.Slice).Elem()
		abs := e.ar.Bin(token.ADD, tInt, v.Off, i)
		if isStruct(elem) {
			return TV{V: VRef{e.elemRef(v.Reg, abs)}, T: types.NewPointer(elem)}
		}
		return TV{V: en.st.loadElemIn(en.heap, elem, v.Reg, abs), T: elem}
	case VString:
		return TV{V: VScalar{SelectD(v.Arr, e.ar.Bin(token.ADD, tInt, v.Off, i))}, T: byteType}
	case VArr:
		at := b.T.Underlying().(*types.Array)
		return TV{V: e.fromLeaves(at.Elem(), []*Term{SelectD(v.A, i)}), T: at.Elem()}
	}
	en.fail("cannot index %T", b.V)
	return TV{}
}

func (en *Env) sliceExpr(b TV, v ESlice) TV {
	e := en.x.e
	z := e.ar.IConst(0)
	switch s := b.V.(type) {
	case VSlice:
		lo, hi := z, s.Len
		if v.Lo != nil {
			lo = en.toInt(en.eval(v.Lo))
		}
		if v.Hi != nil {
			hi = en.toInt(en.eval(v.Hi))
		}
		return TV{V: VSlice{Reg: s.Reg, Off: e.ar.Bin(token.ADD, tInt, s.Off, lo), Len: e.ar.Bin(token.SUB, tInt, hi, lo), Cap: e.ar.Bin(token.SUB, tInt, s.Cap, lo)}, T: b.T}
	case VString:
		lo, hi := z, s.Len
		if v.Lo != nil {
			lo = en.toInt(en.eval(v.Lo))
		}
		if v.Hi != nil {
			hi = en.toInt(en.eval(v.Hi))
		}
		return TV{V: VString{Reg: s.Reg, Arr: s.Arr, Off: e.ar.Bin(token.ADD, tInt, s.Off, lo), Len: e.ar.Bin(token.SUB, tInt, hi, lo)}, T: b.T}
	}
	en.fail("cannot slice %T", b.V)
	return TV{}
}

func (en *Env) unary(v EUnary) TV {
	x := en.eval(v.X)
	switch v.Op {
	case "!":
		return TV{V: VScalar{Not(en.boolOf(x))}, T: types.Typ[types.Bool]}
	case "-":
		if x.Untyped != nil {
			return TV{Untyped: constant.UnaryOp(token.SUB, x.Untyped, 0)}
		}
		return TV{V: en.st.unop(token.SUB, x.T, x.V), T: x.T}
	case "+":
		return x
	case "^":
		if x.Untyped != nil {
			return TV{Untyped: constant.UnaryOp(token.XOR, x.Untyped, 0)}
		}
		return TV{V: en.st.unop(token.XOR, x.T, x.V), T: x.T}
	case "*":
		if x.TypeRef != nil {
			return TV{TypeRef: types.NewPointer(x.TypeRef)}
		}
		return en.derefPtr(x)
	case "[]":
		if x.TypeRef != nil {
			return TV{TypeRef: types.NewSlice(x.TypeRef)}
		}
		en.fail("[] needs a type")
	}
	en.fail("unsupported unary %s", v.Op)
	return TV{}
}

func (en *Env) derefPtr(x TV) TV {
	pt, ok := x.T.Underlying().(*types.Pointer)
	if !ok {
		en.fail("dereference of non-pointer")
	}
	switch p := x.V.(type) {
	case VRef:
		return TV{V: en.st.loadStructIn(en.heap, pt.Elem(), p.T), T: pt.Elem()}
	case VPtr:
		if p.Cell != nil {
			c := en.st.cells[*p.Cell]
			return TV{V: getPath(c, p.Path), T: pt.Elem()}
		}
		if p.Reg != nil {
			return TV{V: en.st.loadElemIn(en.heap, pt.Elem(), p.Reg, p.Idx), T: pt.Elem()}
		}
	}
	en.fail("unsupported dereference")
	return TV{}
}

var tokOf = map[string]token.Token{"+": token.ADD, "-": token.SUB, "*": token.MUL, "/": token.QUO, "%": token.REM, "&": token.AND, "|": token.OR, "^": token.XOR,
	"<<": token.SHL, ">>": token.SHR, "&^": token.AND_NOT, "==": token.EQL, "!=": token.NEQ, "<": token.LSS, "<=": token.LEQ, ">": token.GTR, ">=": token.GEQ,
	"&&": token.LAND, "||": token.LOR}

func (en *Env) binary(v EBinary) TV {
	boolT := types.Typ[types.Bool]
	switch v.Op {
	case "==>":
		a := en.boolOf(en.eval(v.X))
		if a.IsFalse() {
			return TV{V: VScalar{True}, T: boolT}
		}
		b := en.boolOf(en.eval(v.Y))
		return TV{V: VScalar{Implies(a, b)}, T: boolT}
	case "<==>":
		a, b := en.boolOf(en.eval(v.X)), en.boolOf(en.eval(v.Y))
		return TV{V: VScalar{Eq(a, b)}, T: boolT}
	case "&&":
		a, b := en.boolOf(en.eval(v.X)), en.boolOf(en.eval(v.Y))
		return TV{V: VScalar{And(a, b)}, T: boolT}
	case "||":
		a, b := en.boolOf(en.eval(v.X)), en.boolOf(en.eval(v.Y))
		return TV{V: VScalar{Or(a, b)}, T: boolT}
	}
	op := tokOf[v.Op]
	a, b := en.eval(v.X), en.eval(v.Y)
	if a.TypeRef != nil || b.TypeRef != nil {
		en.fail("type used as value in %s", exprString(v))
	}
	// untyped constant folding
	if a.Untyped != nil && b.Untyped != nil {
		switch op {
		case token.EQL, token.NEQ, token.LSS, token.LEQ, token.GTR, token.GEQ:
			return TV{V: VScalar{Bool(constant.Compare(a.Untyped, op, b.Untyped))}, T: boolT}
		case token.SHL, token.SHR:
			s, _ := constant.Uint64Val(b.Untyped)
			return TV{Untyped: constant.Shift(a.Untyped, op, uint(s))}
		case token.QUO:
			return TV{Untyped: constant.BinaryOp(a.Untyped, token.QUO_ASSIGN, b.Untyped)}
		}
		return TV{Untyped: constant.BinaryOp(a.Untyped, op, b.Untyped)}
	}
	if op == token.SHL || op == token.SHR {
		a = en.defaultType(a)
		b = en.defaultType(b)
		return TV{V: en.st.binop(op, a.T, a.V, b.V, b.T), T: a.T}
	}
	a, b = en.unify(a, b)
	if (op == token.EQL || op == token.NEQ) && a.T != nil && b.T != nil && isIface(a.T) != isIface(b.T) {
		// comparison of an interface value with a concrete value: the concrete side is boxed
		if isIface(a.T) {
			b = TV{V: en.x.makeIface(en.st, b.T, b.V), T: a.T}
		} else {
			a = TV{V: en.x.makeIface(en.st, a.T, a.V), T: b.T}
		}
	}
	r := en.st.binop(op, a.T, a.V, b.V, b.T)
	switch op {
	case token.EQL, token.NEQ, token.LSS, token.LEQ, token.GTR, token.GEQ:
		return TV{V: r, T: boolT}
	}
	return TV{V: r, T: a.T}
}

func (en *Env) typeExpr(ex Expr) types.Type {
	tv := en.eval(ex)
	if tv.TypeRef == nil {
		en.fail("type expected: %s", exprString(ex))
	}
	return tv.TypeRef
}

func (en *Env) call(c ECall) TV {
	e := en.x.e
	st := en.st
	f := en.eval(c.Fun)
	boolT := types.Typ[types.Bool]
	intT := types.Typ[types.Int]
	switch {
	case f.TypeRef != nil:
		if len(c.Args) != 1 {
			en.fail("conversion takes one argument")
		}
		a := en.eval(c.Args[0])
		if a.V == nil {
			return en.coerce(a, f.TypeRef)
		}
		return TV{V: st.convert(a.T, f.TypeRef, a.V), T: f.TypeRef}
	case f.PredRef != nil:
		p := f.PredRef
		if len(c.Args) != len(p.Params) {
			en.fail("predicate %s takes %d arguments", p.Name, len(p.Params))
		}
		sub := *en
		sub.vars = make(map[string]TV, len(en.vars)+len(p.Params))
		for k, v := range en.vars {
			sub.vars[k] = v
		}
		for i, prm := range p.Params {
			a := en.eval(c.Args[i])
			if t, ok := basicTypes[prm.Type]; ok && a.V == nil {
				a = en.coerce(a, t)
			}
			sub.vars[prm.Name] = a
		}
		if f.PredPkg != "" {
			// the body is evaluated in the declaring package's scope
			if tp := e.tpkgs[f.PredPkg]; tp != nil {
				sub.pkg = tp.Types
			}
		}
		return sub.eval(p.Body)
	case f.FnRef != nil:
		return en.specCall(f.FnRef, c.Args)
	case f.Builtin != "":
		switch f.Builtin {
		case "old":
			sub := *en
			sub.heap = en.old
			sub.inOld = true
			return sub.eval(c.Args[0])
		case "len":
			a := en.eval(c.Args[0])
			switch v := a.V.(type) {
			case VSlice:
				return TV{V: VScalar{v.Len}, T: intT}
			case VString:
				return TV{V: VScalar{v.Len}, T: intT}
			case VRef: // map
				return TV{V: VScalar{SelectD(heapGetIn(en.heap, "MapLen", e.fldSort(e.ar.I())), v.T)}, T: intT}
			}
			if a.Untyped != nil && a.Untyped.Kind() == constant.String {
				return TV{Untyped: constant.MakeInt64(int64(len(constant.StringVal(a.Untyped))))}
			}
			if at, ok := a.T.Underlying().(*types.Array); ok {
				return TV{Untyped: constant.MakeInt64(at.Len())}
			}
			en.fail("len of %T", a.V)
		case "cap":
			a := en.eval(c.Args[0])
			if v, ok := a.V.(VSlice); ok {
				return TV{V: VScalar{v.Cap}, T: intT}
			}
			en.fail("cap of %T", a.V)
		case "region":
			a := en.eval(c.Args[0])
			switch v := a.V.(type) {
			case VSlice:
				return TV{V: VScalar{v.Reg}, T: intT}
			case VString:
				return TV{V: VScalar{v.Reg}, T: intT}
			case VPtr:
				if v.Reg != nil {
					return TV{V: VScalar{v.Reg}, T: intT}
				}
				if v.ObjRef != nil {
					return TV{V: VScalar{v.ObjRef}, T: intT}
				}
			case VRef:
				return TV{V: VScalar{v.T}, T: intT}
			case VIface:
				return TV{V: VScalar{v.Ref}, T: intT}
			}
			en.fail("region of %T", a.V)
		case "offset":
			a := en.eval(c.Args[0])
			switch v := a.V.(type) {
			case VSlice:
				return TV{V: VScalar{v.Off}, T: intT}
			case VString:
				return TV{V: VScalar{v.Off}, T: intT}
			case VPtr:
				if v.Idx != nil {
					return TV{V: VScalar{v.Idx}, T: intT}
				}
			}
			en.fail("offset of %T", a.V)
		case "rsize":
			return TV{V: VScalar{e.rsize(en.toInt(en.eval(c.Args[0])))}, T: intT}
		case "avail":
			// bytes available from an unsafe pointer to the end of its allocation
			a := en.eval(c.Args[0])
			p, ok := a.V.(VPtr)
			if !ok || p.Reg == nil {
				en.fail("avail of non-pointer")
			}
			return TV{V: VScalar{e.ar.Bin(token.SUB, tInt, e.rsize(p.Reg), p.Idx)}, T: intT}
		case "fresh", "allocated":
			a := en.eval(c.Args[0])
			var id *Term
			switch v := a.V.(type) {
			case VSlice:
				id = v.Reg
			case VString:
				id = v.Reg
			case VRef:
				id = v.T
			case VIface:
				id = v.Ref
			case VPtr:
				id = v.Reg
			case VScalar:
				id = v.T
			}
			if id == nil {
				en.fail("%s of %T", f.Builtin, a.V)
			}
			if f.Builtin == "fresh" {
				return TV{V: VScalar{And(Not(st.isAllocIn(en.old, id)), Not(Eq(id, e.ar.IConst(0))))}, T: boolT}
			}
			return TV{V: VScalar{st.isAllocIn(en.heap, id)}, T: boolT}
		case "istype":
			a := en.eval(c.Args[0])
			iv, ok := a.V.(VIface)
			if !ok {
				en.fail("istype on non-interface")
			}
			t := en.typeExpr(c.Args[1])
			if isIface(t) {
				return TV{V: VScalar{e.implTerm(t, iv.Tag)}, T: boolT}
			}
			return TV{V: VScalar{Eq(iv.Tag, e.ar.IConst(int64(e.typeTag(t))))}, T: boolT}
		case "astype":
			a := en.eval(c.Args[0])
			iv, ok := a.V.(VIface)
			if !ok {
				en.fail("astype on non-interface")
			}
			t := en.typeExpr(c.Args[1])
			sub := &State{e: e, heap: en.heap, cells: st.cells}
			return TV{V: en.x.unbox(sub, t, iv.Ref), T: t}
		case "typeid":
			a := en.eval(c.Args[0])
			iv, ok := a.V.(VIface)
			if !ok {
				en.fail("typeid on non-interface")
			}
			return TV{V: VScalar{iv.Tag}, T: intT}
		case "isnil":
			a := en.eval(c.Args[0])
			switch v := a.V.(type) {
			case VIface:
				return TV{V: VScalar{Eq(v.Tag, e.ar.IConst(0))}, T: boolT}
			case VSlice:
				return TV{V: VScalar{Eq(v.Reg, e.ar.IConst(0))}, T: boolT}
			case VRef:
				return TV{V: VScalar{Eq(v.T, e.ar.IConst(0))}, T: boolT}
			case VFunc:
				return TV{V: VScalar{Eq(e.funcTerm(v), e.ar.IConst(0))}, T: boolT}
			case VPtr:
				if v.Reg != nil {
					return TV{V: VScalar{Eq(v.Reg, e.ar.IConst(0))}, T: boolT}
				}
				if v.Cell != nil {
					return TV{V: VScalar{False}, T: boolT}
				}
			}
			en.fail("isnil of %T", a.V)
		case "bytesat":
			// bytes(p, n): the n bytes an unsafe pointer points at, as a slice value
			a := en.eval(c.Args[0])
			p, ok := a.V.(VPtr)
			if !ok || p.Reg == nil {
				en.fail("bytes() needs an unsafe/element pointer")
			}
			n := en.toInt(en.eval(c.Args[1]))
			return TV{V: VSlice{Reg: p.Reg, Off: p.Idx, Len: n, Cap: n}, T: types.NewSlice(byteType)}
		case "eqbytes":
			// eqbytes(a, alo, b, blo, n): a[alo+i] == b[blo+i] for 0 <= i < n, stated over absolute
			// indices of a's backing array with a trigger on it (robust E-matching)
			if len(c.Args) != 5 {
				en.fail("eqbytes(a, alo, b, blo, n)")
			}
			arrOf := func(tv TV) (*Term, *Term) {
				switch v := tv.V.(type) {
				case VSlice:
					return st.regionArrIn(en.heap, byteType, v.Reg), v.Off
				case VString:
					return v.Arr, v.Off
				}
				if tv.Untyped != nil {
					s := en.defaultType(tv).V.(VString)
					return s.Arr, s.Off
				}
				en.fail("eqbytes on %T", tv.V)
				return nil, nil
			}
			aArr, aOff := arrOf(en.eval(c.Args[0]))
			alo := en.toInt(en.eval(c.Args[1]))
			bArr, bOff := arrOf(en.eval(c.Args[2]))
			blo := en.toInt(en.eval(c.Args[3]))
			n := en.toInt(en.eval(c.Args[4]))
			aBase := e.ar.Bin(token.ADD, tInt, aOff, alo)
			bBase := e.ar.Bin(token.ADD, tInt, bOff, blo)
			if n.IsConst() && n.Val.IsInt64() && n.Val.Int64() <= 16 {
				var cs []*Term
				for i := int64(0); i < n.Val.Int64(); i++ {
					ki := e.ar.IConst(i)
					cs = append(cs, Eq(SelectD(aArr, e.ar.Bin(token.ADD, tInt, aBase, ki)), SelectD(bArr, e.ar.Bin(token.ADD, tInt, bBase, ki))))
				}
				return TV{V: VScalar{And(cs...)}, T: boolT}
			}
			e.nfresh++
			j := Var(fmt.Sprintf("$b_j_%d", e.nfresh), e.ar.I())
			in := And(e.ar.Cmp(token.LEQ, tInt, aBase, j), e.ar.Cmp(token.LSS, tInt, j, e.ar.Bin(token.ADD, tInt, aBase, n)))
			sel := Select(aArr, j)
			body := Implies(in, Eq(sel, Select(bArr, e.ar.Bin(token.ADD, tInt, bBase, e.ar.Bin(token.SUB, tInt, j, aBase)))))
			return TV{V: VScalar{Forall([]*Term{j}, body, sel)}, T: boolT}
		case "ufbool", "ufint", "ufstr":
			// uninterpreted (but deterministic) functions of their arguments, named by a string literal
			nm := en.eval(c.Args[0])
			if nm.Untyped == nil || nm.Untyped.Kind() != constant.String {
				en.fail("%s: first argument must be a string literal naming the function", f.Builtin)
			}
			name := "uf_" + strings.Map(func(r rune) rune {
				if r >= 'a' && r <= 'z' || r >= 'A' && r <= 'Z' || r >= '0' && r <= '9' {
					return r
				}
				return '_'
			}, constant.StringVal(nm.Untyped))
			var flat []*Term
			for _, a := range c.Args[1:] {
				tv := en.defaultType(en.eval(a))
				flat = append(flat, e.toLeaves(tv.T, tv.V)...)
			}
			switch f.Builtin {
			case "ufbool":
				return TV{V: VScalar{App(name, BoolSort, flat...)}, T: boolT}
			case "ufint":
				return TV{V: VScalar{App(name, e.ar.I(), flat...)}, T: intT}
			}
			strT := types.Typ[types.String]
			ls := e.leaves(strT)
			ts := make([]*Term, len(ls))
			for j, l := range ls {
				ts[j] = App(name+"_"+l.Name, l.S, flat...)
			}
			sv := e.fromLeaves(strT, ts).(VString)
			if len(en.bound) == 0 {
				st.assume(st.stringWF(sv))
			}
			return TV{V: sv, T: strT}
		case "ufcontent":
			// ufcontent("name", s): an uninterpreted integer function of the CONTENT of the string / byte
			// slice s (not of where it is stored): two applications on equal contents are equal (content
			// congruence instances are added per query, as for recursive spec functions)
			nm := en.eval(c.Args[0])
			if nm.Untyped == nil || nm.Untyped.Kind() != constant.String || len(c.Args) != 2 {
				en.fail("ufcontent(\"name\", s)")
			}
			name := "ufc_" + strings.Map(func(r rune) rune {
				if r >= 'a' && r <= 'z' || r >= 'A' && r <= 'Z' || r >= '0' && r <= '9' {
					return r
				}
				return '_'
			}, constant.StringVal(nm.Untyped))
			tv := en.defaultType(en.eval(c.Args[1]))
			var arr, off, ln *Term
			switch v := tv.V.(type) {
			case VString:
				arr, off, ln = v.Arr, v.Off, v.Len
			case VSlice:
				arr, off, ln = st.regionArrIn(en.heap, byteType, v.Reg), v.Off, v.Len
			default:
				en.fail("ufcontent needs a string or []byte")
			}
			e.contentUFs[name] = true
			return TV{V: VScalar{App(name, e.ar.I(), arr, off, ln)}, T: intT}
		case "loopmeasure":
			// loopmeasure(N): the value the decreases measure of the enclosing loop N had at the start of
			// its current iteration (for invariants of inner loops that must carry the outer progress)
			if en.fr == nil {
				en.fail("loopmeasure outside a loop invariant")
			}
			nv := en.eval(c.Args[0])
			if nv.Untyped == nil {
				en.fail("loopmeasure needs a constant loop number")
			}
			n64, _ := constant.Int64Val(constant.ToInt(nv.Untyped))
			for hb, h := range e.loops(en.fr.fn).headers {
				if h.ord == int(n64) {
					if snap := en.fr.loops[hb]; snap != nil && snap.measure != nil {
						return TV{V: VScalar{snap.measure}, T: intT}
					}
				}
			}
			en.fail("loop %d has no measure in scope", n64)
		case "strwin":
			// strwin(s, delta, n): the window of length n of the byte array underlying string s that
			// starts delta bytes after the start of s (delta may be negative)
			a := en.defaultType(en.eval(c.Args[0]))
			sv, ok := a.V.(VString)
			if !ok {
				en.fail("strwin needs a string")
			}
			d := en.toInt(en.eval(c.Args[1]))
			n := en.toInt(en.eval(c.Args[2]))
			return TV{V: VString{Reg: sv.Reg, Arr: sv.Arr, Off: e.ar.Bin(token.ADD, tInt, sv.Off, d), Len: n}, T: types.Typ[types.String]}
		case "apply":
			// apply(f, args...): the (first) result of calling the function value f, as modelled for
			// calls through function values (a deterministic function of f and the arguments)
			fv := en.eval(c.Args[0])
			sig, ok := fv.T.Underlying().(*types.Signature)
			if !ok || sig.Results().Len() < 1 {
				en.fail("apply needs a function value with a result")
			}
			vf, _ := fv.V.(VFunc)
			flat := []*Term{e.funcTerm(vf)}
			for i, a := range c.Args[1:] {
				tv := en.eval(a)
				pt := sig.Params().At(i).Type()
				if tv.V == nil {
					tv = en.coerce(tv, pt)
				}
				if isIface(pt) && !isIface(tv.T) {
					tv = TV{V: en.x.makeIface(st, tv.T, tv.V), T: pt}
				}
				flat = append(flat, e.toLeaves(pt, tv.V)...)
			}
			rt := sig.Results().At(0).Type()
			ls := e.leaves(rt)
			ts := make([]*Term, len(ls))
			for j, l := range ls {
				ts[j] = App(fmt.Sprintf("apply_%d_%d_%s", 0, j, sortKey(l.S)), l.S, flat...)
			}
			return TV{V: e.fromLeaves(rt, ts), T: rt}
		case "writable":
			// writable(b): the region of b is memory handed out for the client to write
			a := en.eval(c.Args[0])
			v, ok := a.V.(VSlice)
			if !ok {
				en.fail("writable of %T", a.V)
			}
			return TV{V: VScalar{App("wr", BoolSort, v.Reg)}, T: boolT}
		case "snap":
			// snap(b): the content of a byte slice (in the heap of the evaluation context) as an immutable string value
			a := en.eval(c.Args[0])
			switch v := a.V.(type) {
			case VSlice:
				return TV{V: VString{Reg: v.Reg, Arr: st.regionArrIn(en.heap, byteType, v.Reg), Off: v.Off, Len: v.Len}, T: types.Typ[types.String]}
			case VString:
				return a
			}
			en.fail("snap of %T", a.V)
		case "bytesof":
			// bytesof(s): the bytes of a string as a slice-like value (content only)
			a := en.defaultType(en.eval(c.Args[0]))
			s, ok := a.V.(VString)
			if !ok {
				en.fail("bytesof needs a string")
			}
			return TV{V: s, T: types.Typ[types.String]}
		case "same":
			a, b := en.eval(c.Args[0]), en.eval(c.Args[1])
			a, b = en.unify(a, b)
			return TV{V: VScalar{e.eqVal(a.T, a.V, b.V)}, T: boolT}
		case "maplen":
			a := en.eval(c.Args[0])
			r, ok := a.V.(VRef)
			if !ok {
				en.fail("maplen of non-map")
			}
			return TV{V: VScalar{SelectD(heapGetIn(en.heap, "MapLen", e.fldSort(e.ar.I())), r.T)}, T: intT}
		}
		en.fail("builtin %s: bad arguments", f.Builtin)
	}
	en.fail("cannot call %s", exprString(c.Fun))
	return TV{}
}

// specCall applies a pure Go function (spec function) to symbolic arguments.
func (en *Env) specCall(fn *ssa.Function, args []Expr) TV {
	x := en.x
	sig := fn.Signature
	if sig.Params().Len() != len(args) {
		en.fail("%s takes %d arguments", fn.Name(), sig.Params().Len())
	}
	vals := make([]Val, len(args))
	heap := en.heap
	for i, a := range args {
		tv := en.eval(a)
		pt := sig.Params().At(i).Type()
		if sv, ok := tv.V.(VString); ok && isByteSlice(pt) {
			// a string's content viewed as a byte slice: a synthetic region in a private heap copy
			if sameHeap(heap, en.heap) {
				heap = copyHeap(en.heap)
			}
			e := en.x.e
			e.nfresh++
			reg := Var(fmt.Sprintf("strview!%d", e.nfresh), e.ar.I())
			nm := memName(byteType, "")
			heap[nm] = Store(heapGetIn(heap, nm, e.memSort(e.ar.ByteSort())), reg, sv.Arr)
			vals[i] = VSlice{Reg: reg, Off: sv.Off, Len: sv.Len, Cap: sv.Len}
			continue
		}
		if tv.V == nil {
			tv = en.coerce(tv, pt)
		} else if !types.Identical(tv.T.Underlying(), pt.Underlying()) {
			// strings may be passed where []byte is expected (content view) and vice versa
			switch v := tv.V.(type) {
			case VString:
				if isByteSlice(pt) {
					en.fail("string passed to spec function %s where []byte is expected", fn.Name())
				}
			case VScalar:
				if _, ok := numOf(pt); ok {
					tv = TV{V: en.st.convert(tv.T, pt, v), T: pt}
				}
			}
		}
		vals[i] = tv.V
	}
	switch fn.String() {
	case "math.Float64bits", "math.Float64frombits", "math.Float32bits", "math.Float32frombits":
		return TV{V: vals[0], T: sig.Results().At(0).Type()}
	}
	var rt types.Type
	if sig.Results().Len() == 1 {
		rt = sig.Results().At(0).Type()
	} else {
		en.fail("spec function %s must have exactly one result", fn.Name())
	}
	r := x.pureCall(en.st, heap, fn, vals)
	return TV{V: r, T: rt}
}


func sameHeap(a, b map[string]*Term) bool {
	if len(a) != len(b) {
		return false
	}
	for k, v := range a {
		if b[k] != v {
			return false
		}
	}
	return true
}
