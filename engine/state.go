package main

import (
	"fmt"
	"go/types"
	"strings"

	"golang.org/x/tools/go/ssa"
)

// termDefs: definitions of named intermediate terms (heap versions); names are globally
// unique, so one table serves all paths. Used only for simplification look-through.
var termDefs = map[string]*Term{}

type State struct {
	e     *Engine
	heap  map[string]*Term
	cells map[cellKey]Val
	pc    []*Term
	trace []string
	br    []*Term // branch conditions taken (subset of pc)
	dead  bool
}

func (st *State) clone() *State {
	n := &State{e: st.e, heap: make(map[string]*Term, len(st.heap)), cells: make(map[cellKey]Val, len(st.cells))}
	for k, v := range st.heap {
		n.heap[k] = v
	}
	for k, v := range st.cells {
		n.cells[k] = v
	}
	n.pc = st.pc[:len(st.pc):len(st.pc)]
	n.trace = st.trace[:len(st.trace):len(st.trace)]
	n.br = st.br[:len(st.br):len(st.br)]
	return n
}

func (st *State) assume(t *Term) {
	if t.IsTrue() {
		return
	}
	st.pc = append(st.pc, t)
}

func heapInit(name string, s *Sort) *Term { return Var(name+"!0", s) }

func (st *State) heapGet(name string, s *Sort) *Term {
	if t, ok := st.heap[name]; ok {
		return t
	}
	return heapInit(name, s)
}

func heapGetIn(h map[string]*Term, name string, s *Sort) *Term {
	if t, ok := h[name]; ok {
		return t
	}
	return heapInit(name, s)
}

// heapSet installs a new version of a heap map, named so that terms stay small.
func (st *State) heapSet(name string, t *Term) {
	if t.Op == "var" {
		st.heap[name] = t
		return
	}
	v := st.e.fresh(name, t.S)
	termDefs[v.Name] = t
	st.assume(&Term{Op: "=", S: BoolSort, Args: []*Term{v, t}})
	st.heap[name] = v
}

func (st *State) heapHavoc(name string, s *Sort) *Term {
	v := st.e.fresh(name, s)
	st.heap[name] = v
	return v
}

// deref follows named definitions for simplification
func deref(t *Term) *Term {
	for t.Op == "var" {
		d, ok := termDefs[t.Name]
		if !ok {
			return t
		}
		t = d
	}
	return t
}

// SelectD is Select with look-through of named heap versions.
func SelectD(arr, idx *Term) *Term {
	a := deref(arr)
	if a != arr {
		// try to simplify against the definition; fall back to the named term
		cur := a
		orig := arr
		for {
			switch cur.Op {
			case "store":
				si := cur.Args[1]
				if sameTerm(si, idx) {
					return cur.Args[2]
				}
				if definitelyDistinct(si, idx) {
					orig = cur.Args[0]
					cur = deref(cur.Args[0])
					continue
				}
			case "constarr":
				return cur.Args[0]
			}
			break
		}
		return Select(orig, idx)
	}
	return Select(arr, idx)
}

// ---------- heap map names ----------

func memName(t types.Type, leaf string) string { return "Mem_" + typeKey(t) + "_" + leaf }

func structKey(t types.Type) string {
	return typeKey(t)
}

func fldName(st types.Type, field string, leaf string) string {
	return "Fld_" + structKey(st) + "_" + field + "_" + leaf
}

func (e *Engine) memSort(leaf *Sort) *Sort { return ArraySort(e.ar.I(), ArraySort(e.ar.I(), leaf)) }
func (e *Engine) fldSort(leaf *Sort) *Sort { return ArraySort(e.ar.I(), leaf) }

// ---------- element memory ----------

func isStruct(t types.Type) bool {
	_, ok := t.Underlying().(*types.Struct)
	return ok
}

func (e *Engine) elemRef(reg, idx *Term) *Term {
	return App("elemref", e.ar.I(), reg, idx)
}

func (st *State) loadElemIn(h map[string]*Term, t types.Type, reg, idx *Term) Val {
	e := st.e
	if isStruct(t) {
		return st.loadStructIn(h, t, e.elemRef(reg, idx))
	}
	ls := e.leaves(t)
	ts := make([]*Term, len(ls))
	for i, l := range ls {
		m := heapGetIn(h, memName(t, l.Name), e.memSort(l.S))
		ts[i] = SelectD(SelectD(m, reg), idx)
	}
	return e.fromLeaves(t, ts)
}

func (st *State) loadElem(t types.Type, reg, idx *Term) Val {
	return st.loadElemIn(st.heap, t, reg, idx)
}

func (st *State) storeElem(t types.Type, reg, idx *Term, v Val) {
	e := st.e
	if isStruct(t) {
		st.storeStruct(t, e.elemRef(reg, idx), v)
		return
	}
	ls := e.leaves(t)
	ts := e.toLeaves(t, v)
	for i, l := range ls {
		name := memName(t, l.Name)
		m := st.heapGet(name, e.memSort(l.S))
		st.heapSet(name, Store(m, reg, Store(SelectD(m, reg), idx, ts[i])))
	}
}

// regionArr returns the content array of a region for scalar element types
func (st *State) regionArrIn(h map[string]*Term, t types.Type, reg *Term) *Term {
	ls := st.e.leaves(t)
	if len(ls) != 1 {
		panic("regionArr on multi-leaf element type " + t.String())
	}
	m := heapGetIn(h, memName(t, ls[0].Name), st.e.memSort(ls[0].S))
	return SelectD(m, reg)
}
func (st *State) regionArr(t types.Type, reg *Term) *Term {
	return st.regionArrIn(st.heap, t, reg)
}
func (st *State) setRegionArr(t types.Type, reg, arr *Term) {
	ls := st.e.leaves(t)
	name := memName(t, ls[0].Name)
	m := st.heapGet(name, st.e.memSort(ls[0].S))
	st.heapSet(name, Store(m, reg, arr))
}

// ---------- struct objects ----------

func (e *Engine) subRef(st types.Type, field int, ref *Term) *Term {
	if field == 0 {
		// a struct-typed first field lives at the address of the enclosing object (Go layout);
		// heap maps are per struct type, so sharing the identity is harmless and exact
		return ref
	}
	return App(fmt.Sprintf("sub_%s_%d", structKey(st), field), e.ar.I(), ref)
}

func (st *State) loadFieldIn(h map[string]*Term, sty types.Type, field int, ref *Term) Val {
	e := st.e
	s := sty.Underlying().(*types.Struct)
	ft := s.Field(field).Type()
	if isStruct(ft) {
		return st.loadStructIn(h, ft, e.subRef(sty, field, ref))
	}
	ls := e.leaves(ft)
	ts := make([]*Term, len(ls))
	for i, l := range ls {
		m := heapGetIn(h, fldName(sty, s.Field(field).Name(), l.Name), e.fldSort(l.S))
		ts[i] = SelectD(m, ref)
	}
	return e.fromLeaves(ft, ts)
}

func (st *State) loadField(sty types.Type, field int, ref *Term) Val {
	return st.loadFieldIn(st.heap, sty, field, ref)
}

func (st *State) storeField(sty types.Type, field int, ref *Term, v Val) {
	e := st.e
	s := sty.Underlying().(*types.Struct)
	ft := s.Field(field).Type()
	if isStruct(ft) {
		st.storeStruct(ft, e.subRef(sty, field, ref), v)
		return
	}
	ls := e.leaves(ft)
	ts := e.toLeaves(ft, v)
	for i, l := range ls {
		name := fldName(sty, s.Field(field).Name(), l.Name)
		m := st.heapGet(name, e.fldSort(l.S))
		st.heapSet(name, Store(m, ref, ts[i]))
	}
}

func (st *State) loadStructIn(h map[string]*Term, sty types.Type, ref *Term) Val {
	s := sty.Underlying().(*types.Struct)
	fs := make([]Val, s.NumFields())
	for i := range fs {
		fs[i] = st.loadFieldIn(h, sty, i, ref)
	}
	return VStruct{fs}
}

func (st *State) storeStruct(sty types.Type, ref *Term, v Val) {
	s := sty.Underlying().(*types.Struct)
	sv, ok := v.(VStruct)
	if !ok {
		panic(fmt.Sprintf("storeStruct: %T", v))
	}
	for i := 0; i < s.NumFields(); i++ {
		st.storeField(sty, i, ref, sv.F[i])
	}
}

// ---------- allocation ----------

func (st *State) allocSort() *Sort { return ArraySort(st.e.ar.I(), BoolSort) }

func (st *State) isAllocIn(h map[string]*Term, id *Term) *Term {
	return SelectD(heapGetIn(h, "Alloc", st.allocSort()), id)
}

func (st *State) isAlloc(id *Term) *Term { return st.isAllocIn(st.heap, id) }

// freshID allocates a new region / object identity, distinct from everything allocated.
func (st *State) freshID(prefix string) *Term {
	e := st.e
	if x := e.curInit; x != nil {
		x.initIDs++
		id := e.ar.IConst(int64(x.initIDs))
		x.initAllocated = append(x.initAllocated, id)
		a := st.heapGet("Alloc", st.allocSort())
		st.heapSet("Alloc", Store(a, id, True))
		return id
	}
	id := e.fresh(prefix, e.ar.I())
	st.assume(Not(st.isAlloc(id)))
	st.assume(Not(Eq(id, e.ar.IConst(0))))
	if e.ar.Mode == ModeInt {
		st.assume(IntCmp(">", id, e.ar.IConst(0)))
	}
	a := st.heapGet("Alloc", st.allocSort())
	st.heapSet("Alloc", Store(a, id, True))
	return id
}

func (e *Engine) rsize(reg *Term) *Term { return App("rsize", e.ar.I(), reg) }
func (e *Engine) addr(reg *Term) *Term  { return App("addr", BV(64), reg) }

// well-formedness facts assumed for any slice value obtained from the environment
func (st *State) sliceWF(s VSlice) *Term {
	e := st.e
	z := e.ar.IConst(0)
	lim := e.ar.Const(tInt, bigPow2(47))
	le := func(a, b *Term) *Term { return e.ar.Cmp(tokLEQ, tInt, a, b) }
	return And(le(z, s.Len), le(s.Len, s.Cap), le(s.Cap, lim), le(z, s.Off), le(s.Off, lim),
		le(e.ar.Bin(tokADD, NumT{64, true, false}, s.Off, s.Cap), e.rsize(s.Reg)), le(e.rsize(s.Reg), lim),
		Implies(Eq(s.Reg, z), And(Eq(s.Cap, z), Eq(s.Off, z))))
}

func (st *State) stringWF(s VString) *Term {
	e := st.e
	z := e.ar.IConst(0)
	lim := e.ar.Const(tInt, bigPow2(47))
	le := func(a, b *Term) *Term { return e.ar.Cmp(tokLEQ, tInt, a, b) }
	return And(le(z, s.Len), le(s.Len, lim), le(z, s.Off), le(s.Off, lim))
}

func describeVal(v Val) string {
	switch x := v.(type) {
	case VScalar:
		return x.T.String()
	case VSlice:
		return fmt.Sprintf("slice(reg=%s off=%s len=%s cap=%s)", x.Reg, x.Off, x.Len, x.Cap)
	case VString:
		return fmt.Sprintf("string(off=%s len=%s)", x.Off, x.Len)
	case VIface:
		return fmt.Sprintf("iface(tag=%s ref=%s)", x.Tag, x.Ref)
	case VRef:
		return "ref(" + x.T.String() + ")"
	case VTuple:
		var s []string
		for _, f := range x.F {
			s = append(s, describeVal(f))
		}
		return "(" + strings.Join(s, ", ") + ")"
	}
	return fmt.Sprintf("%T", v)
}

var _ = ssa.NaiveForm
