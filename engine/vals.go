package main

// Symbolic values of Go types and their flattening into SMT leaves.

import (
	"fmt"
	"go/types"
	"strings"

	"golang.org/x/tools/go/ssa"
)

type Val interface{}

type VScalar struct{ T *Term } // bool, integers, floats (bit patterns)

type VSlice struct{ Reg, Off, Len, Cap *Term }

// VString: immutable byte sequence Arr[Off : Off+Len]; Reg is the identity of the backing
// memory (used only for aliasing claims).
type VString struct{ Reg, Arr, Off, Len *Term }

type VRef struct{ T *Term } // pointer to struct object, map object, func id

// VPtr: pointer to a non-struct location: element Idx of region Reg, or (engine level) a
// local cell.
type VPtr struct {
	Reg, Idx *Term // element pointer into a region
	Cell     *cellKey
	Path     []int // struct field path inside a cell / global
	Global   *ssa.Global
	FRef     *Term // field pointer: field FIdx of object FRef of struct type FSty
	FSty     types.Type
	FIdx     int
	ArrIdx   *Term // element index when the location holds an array value
	ByteView bool  // obtained through unsafe.Pointer from a byte region
	ObjRef   *Term // unsafe.Pointer that is really a struct object reference
	Orig     types.Type // element type of the typed pointer an unsafe.Pointer was made from (non-byte regions)
}

type VIface struct{ Tag, Ref *Term }

type VStruct struct{ F []Val }

type VTuple struct{ F []Val }

type VArr struct{ A *Term } // array value [N]T of scalars

type VFunc struct {
	Fn *ssa.Function
	T  *Term
}

type cellKey struct {
	A     *ssa.Alloc
	Frame int
	Name  string // synthetic cells
}

type Leaf struct {
	Name string
	S    *Sort
}

func isStructPtr(t types.Type) (*types.Struct, bool) {
	p, ok := t.Underlying().(*types.Pointer)
	if !ok {
		return nil, false
	}
	s, ok := p.Elem().Underlying().(*types.Struct)
	return s, ok
}

func (e *Engine) leaves(t types.Type) []Leaf {
	I := e.ar.I()
	switch u := t.Underlying().(type) {
	case *types.Basic:
		if u.Kind() == types.Bool || u.Kind() == types.UntypedBool {
			return []Leaf{{"", BoolSort}}
		}
		if u.Kind() == types.String || u.Kind() == types.UntypedString {
			return []Leaf{{"reg", I}, {"arr", ArraySort(I, e.ar.ByteSort())}, {"off", I}, {"len", I}}
		}
		if u.Kind() == types.UnsafePointer {
			return []Leaf{{"reg", I}, {"idx", I}}
		}
		if n, ok := numOf(t); ok {
			return []Leaf{{"", e.ar.Sort(n)}}
		}
	case *types.Slice:
		return []Leaf{{"reg", I}, {"off", I}, {"len", I}, {"cap", I}}
	case *types.Pointer:
		if _, ok := u.Elem().Underlying().(*types.Struct); ok {
			return []Leaf{{"", I}}
		}
		return []Leaf{{"reg", I}, {"idx", I}}
	case *types.Interface:
		return []Leaf{{"tag", I}, {"ref", I}}
	case *types.Map, *types.Signature, *types.Chan:
		return []Leaf{{"", I}}
	case *types.Struct:
		var out []Leaf
		for i := 0; i < u.NumFields(); i++ {
			for _, l := range e.leaves(u.Field(i).Type()) {
				out = append(out, Leaf{fmt.Sprintf("f%d.%s", i, l.Name), l.S})
			}
		}
		return out
	case *types.Array:
		el := e.leaves(u.Elem())
		if len(el) == 1 {
			return []Leaf{{"", ArraySort(I, el[0].S)}}
		}
	case *types.TypeParam:
		return []Leaf{{"tag", I}, {"ref", I}}
	}
	panic(fmt.Sprintf("leaves: unsupported type %s", t))
}

func (e *Engine) toLeaves(t types.Type, v Val) []*Term {
	switch x := v.(type) {
	case VScalar:
		return []*Term{x.T}
	case VSlice:
		return []*Term{x.Reg, x.Off, x.Len, x.Cap}
	case VString:
		return []*Term{x.Reg, x.Arr, x.Off, x.Len}
	case VRef:
		return []*Term{x.T}
	case VPtr:
		if x.Cell != nil || x.Global != nil || x.FRef != nil {
			panic(opErr("pointer to a local cell, global or field escapes into memory (unsupported)"))
		}
		if x.ObjRef != nil {
			return []*Term{x.ObjRef, e.ar.IConst(0)}
		}
		return []*Term{x.Reg, x.Idx}
	case VIface:
		return []*Term{x.Tag, x.Ref}
	case VArr:
		return []*Term{x.A}
	case VFunc:
		return []*Term{e.funcTerm(x)}
	case VStruct:
		st := t.Underlying().(*types.Struct)
		var out []*Term
		for i, f := range x.F {
			out = append(out, e.toLeaves(st.Field(i).Type(), f)...)
		}
		return out
	}
	panic(fmt.Sprintf("toLeaves: %T for %s", v, t))
}

func (e *Engine) funcTerm(f VFunc) *Term {
	if f.T != nil {
		return f.T
	}
	if f.Fn == nil {
		return e.ar.IConst(0)
	}
	return e.ar.IConst(int64(e.funcID(f.Fn)))
}

func (e *Engine) funcID(f *ssa.Function) int {
	if id, ok := e.funcIDs[f]; ok {
		return id
	}
	id := len(e.funcIDs) + 1
	e.funcIDs[f] = id
	e.funcByID[id] = f
	return id
}

func (e *Engine) fromLeaves(t types.Type, ls []*Term) Val {
	v, rest := e.fromLeaves1(t, ls)
	if len(rest) != 0 {
		panic("fromLeaves: leftover")
	}
	return v
}

func (e *Engine) fromLeaves1(t types.Type, ls []*Term) (Val, []*Term) {
	switch u := t.Underlying().(type) {
	case *types.Basic:
		if u.Kind() == types.String || u.Kind() == types.UntypedString {
			return VString{ls[0], ls[1], ls[2], ls[3]}, ls[4:]
		}
		if u.Kind() == types.UnsafePointer {
			return VPtr{Reg: ls[0], Idx: ls[1]}, ls[2:]
		}
		return VScalar{ls[0]}, ls[1:]
	case *types.Slice:
		return VSlice{ls[0], ls[1], ls[2], ls[3]}, ls[4:]
	case *types.Pointer:
		if _, ok := u.Elem().Underlying().(*types.Struct); ok {
			return VRef{ls[0]}, ls[1:]
		}
		return VPtr{Reg: ls[0], Idx: ls[1]}, ls[2:]
	case *types.Interface:
		return VIface{ls[0], ls[1]}, ls[2:]
	case *types.Map, *types.Chan:
		return VRef{ls[0]}, ls[1:]
	case *types.Signature:
		return VFunc{T: ls[0]}, ls[1:]
	case *types.Struct:
		var fs []Val
		for i := 0; i < u.NumFields(); i++ {
			var f Val
			f, ls = e.fromLeaves1(u.Field(i).Type(), ls)
			fs = append(fs, f)
		}
		return VStruct{fs}, ls
	case *types.Array:
		return VArr{ls[0]}, ls[1:]
	case *types.TypeParam:
		return VIface{ls[0], ls[1]}, ls[2:]
	}
	panic(fmt.Sprintf("fromLeaves: unsupported type %s", t))
}

func (e *Engine) zeroLeaf(s *Sort) *Term {
	switch s.K {
	case SBool:
		return False
	case SBV, SInt:
		return ConstI(s, 0)
	case SArray:
		return ConstArr(s, e.zeroLeaf(s.Elem))
	}
	panic("zeroLeaf")
}

func (e *Engine) zeroVal(t types.Type) Val {
	ls := e.leaves(t)
	ts := make([]*Term, len(ls))
	for i, l := range ls {
		ts[i] = e.zeroLeaf(l.S)
	}
	return e.fromLeaves(t, ts)
}

// typeKey gives a short stable identifier for a type (used in heap map names).
func typeKey(t types.Type) string {
	t = types.Unalias(t)
	if b, ok := t.Underlying().(*types.Basic); ok {
		t = b
		if b.Kind() == types.Uint8 {
			t = types.Typ[types.Uint8]
		}
	}
	s := types.TypeString(t, func(p *types.Package) string { return p.Name() })
	if s == "byte" {
		s = "uint8"
	}
	r := strings.NewReplacer("*", "P", "[", "_", "]", "_", ".", "_", " ", "", "{", "_", "}", "_", ",", "_", "(", "_", ")", "_", ";", "_", "/", "_")
	return r.Replace(s)
}

// sameVal builds the conjunction of leaf equalities.
func (e *Engine) eqVal(t types.Type, a, b Val) *Term {
	la, lb := e.toLeaves(t, a), e.toLeaves(t, b)
	var cs []*Term
	for i := range la {
		cs = append(cs, Eq(la[i], lb[i]))
	}
	return And(cs...)
}

func iteVal(e *Engine, t types.Type, c *Term, a, b Val) Val {
	la, lb := e.toLeaves(t, a), e.toLeaves(t, b)
	out := make([]*Term, len(la))
	for i := range la {
		out[i] = Ite(c, la[i], lb[i])
	}
	return e.fromLeaves(t, out)
}
