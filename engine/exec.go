package main

// Forward symbolic execution of go/ssa (NaiveForm) with path enumeration.
// Loops are cut at their headers by invariants; calls are replaced by contracts or inlined.

import (
	"fmt"
	"go/token"
	"go/types"
	"sort"
	"strings"

	"golang.org/x/tools/go/ssa"
)

type Frame struct {
	fn     *ssa.Function
	regs   map[ssa.Value]Val
	parent *Frame
	id     int
	ret    func(st *State, results []Val)
	loops  map[*ssa.BasicBlock]*loopSnap
	callee string // for naming obligations inside inlined frames
	cellSeq map[*ssa.Alloc]int
}

type loopSnap struct {
	measure *Term
	heap    map[string]*Term
}

func (f *Frame) clone() *Frame {
	if f == nil {
		return nil
	}
	n := &Frame{fn: f.fn, regs: make(map[ssa.Value]Val, len(f.regs)), parent: f.parent.clone(), id: f.id, ret: f.ret, callee: f.callee,
		loops: make(map[*ssa.BasicBlock]*loopSnap, len(f.loops)), cellSeq: make(map[*ssa.Alloc]int, len(f.cellSeq))}
	for k, v := range f.regs {
		n.regs[k] = v
	}
	for k, v := range f.loops {
		n.loops[k] = v
	}
	for k, v := range f.cellSeq {
		n.cellSeq[k] = v
	}
	return n
}

type assignLoc struct {
	kind   string // "range" (Mem), "field", "object", "cell"
	elemT  types.Type
	reg    *Term
	lo, hi *Term // absolute indices within the region
	sty    types.Type
	field  int
	ref    *Term
	text   string
	cell   *VPtr
	guard  *Term // nil: unconditional; otherwise the location is assignable only when guard holds (pre-state)
	bv     *Term // "ghostset": the bound key variable
	cond   *Term // "ghostset": which keys (over bv) of ghost map `text` may be assigned
}

func (l assignLoc) g() *Term {
	if l.guard == nil {
		return True
	}
	return l.guard
}

type Exec struct {
	noAllocWF     bool
	retCovers     []*Obligation
	callCovers    map[string]int
	e         *Engine
	top       *ssa.Function
	spec      *FuncSpec
	qname     string
	oldHeap   map[string]*Term
	entryVars map[string]Val
	entryTyp  map[string]types.Type
	assignLocs []assignLoc
	hasAssign bool
	paths     int
	frameSeq  int
	prop      string
	ordinals  map[ssa.Instruction]int
	measure0  *Term
	aborted   string
	retCount  int
	entryPC   []*Term
	lemma     bool
	letVars   map[string]TV
	pure      int
	ufDirect  *ssa.Function
	initMode  bool
	initPkg   *ssa.Package
	initIDs   int
	initFinal *State
	initLast  *State
	initWritten   map[*ssa.Global]bool
	initAllocated []*Term
	replayInfo    *ReplayInfo
	curClause     *Clause
	group         string
	primary       bool
	modelHandles  []modelHandle
}

type modelHandle struct {
	dt  types.Type
	ref *Term
}

// active: the clause takes part in the current verification pass
func (x *Exec) active(c *Clause) bool {
	g := c.group()
	return g == "" || g == x.group
}

type abortPath struct{ why string }

func (x *Exec) fail(f string, a ...interface{}) {
	panic(abortPath{fmt.Sprintf(f, a...)})
}

// frames live in the state so that cloning a state at a branch clones them too
type stateExt struct {
	fr      *Frame
	seq     int
	depth   int
}

var stExt = map[*State]*stateExt{}

func (st *State) ext() *stateExt {
	x := stExt[st]
	if x == nil {
		x = &stateExt{}
		stExt[st] = x
	}
	return x
}

func (x *Exec) cloneState(st *State) *State {
	n := st.clone()
	o := st.ext()
	stExt[n] = &stateExt{fr: o.fr.clone(), seq: o.seq, depth: o.depth}
	return n
}

func (x *Exec) dropState(st *State) { delete(stExt, st) }

// ---------------------------------------------------------------------------------
// values of SSA operands

func (x *Exec) val(st *State, v ssa.Value) Val {
	switch c := v.(type) {
	case *ssa.Const:
		if c.Value == nil {
			return x.e.zeroVal(c.Type())
		}
		return st.constVal(c.Type(), c.Value)
	case *ssa.Global:
		return VPtr{Global: c}
	case *ssa.Function:
		return VFunc{Fn: c}
	case *ssa.Builtin:
		x.fail("builtin %s used as a value", c.Name())
	}
	fr := st.ext().fr
	if r, ok := fr.regs[v]; ok {
		return r
	}
	x.fail("no value for %s (%T) in %s", v.Name(), v, fr.fn.Name())
	return nil
}

func (x *Exec) term(st *State, v ssa.Value) *Term {
	s, ok := x.val(st, v).(VScalar)
	if !ok {
		x.fail("scalar expected for %s", v.Name())
	}
	return s.T
}

// ---------------------------------------------------------------------------------
// fresh symbolic values

func (x *Exec) freshVal(st *State, t types.Type, name string) Val {
	e := x.e
	ls := e.leaves(t)
	ts := make([]*Term, len(ls))
	for i, l := range ls {
		n := name
		if l.Name != "" {
			n += "." + l.Name
		}
		ts[i] = e.fresh(n, l.S)
	}
	v := e.fromLeaves(t, ts)
	st.assume(x.wf(st, t, v))
	return v
}

// freshResult: a fresh value for the result of a call. Unlike freshVal it does not claim that
// the identities in it were allocated before the call (the callee may have created them; the
// caller marks them allocated in the post-state).
func (x *Exec) freshResult(st *State, t types.Type, name string) Val {
	e := x.e
	ls := e.leaves(t)
	ts := make([]*Term, len(ls))
	for i, l := range ls {
		n := name
		if l.Name != "" {
			n += "." + l.Name
		}
		ts[i] = e.fresh(n, l.S)
	}
	v := e.fromLeaves(t, ts)
	x.noAllocWF = true
	g := x.wf(st, t, v)
	x.noAllocWF = false
	st.assume(g)
	return v
}

func (x *Exec) allocFact(st *State, id *Term) *Term {
	if x.noAllocWF {
		return True
	}
	return st.isAlloc(id)
}

// wf: typing / well-formedness facts of a value that comes from the environment
func (x *Exec) wf(st *State, t types.Type, v Val) *Term {
	e := x.e
	switch u := v.(type) {
	case VScalar:
		if n, ok := numOf(t); ok {
			if e.ar.Mode == ModeInt && !n.Signed && !n.Float {
				tagBits(u.T, n.Bits)
			}
			return e.ar.InRange(n, u.T)
		}
	case VSlice:
		return And(st.sliceWF(u), x.allocFact(st, u.Reg))
	case VString:
		return st.stringWF(u)
	case VRef:
		if x.noAllocWF {
			return True
		}
		// an object that is an element of a struct slice lives in an allocated region
		I := e.ar.I()
		rg, ix := App("elemref_reg", I, u.T), App("elemref_idx", I, u.T)
		return And(st.isAlloc(u.T), Implies(Eq(u.T, e.elemRef(rg, ix)), st.isAlloc(rg)))
	case VPtr:
		if u.Reg != nil {
			return And(x.allocFact(st, u.Reg), e.ar.Cmp(token.LEQ, tInt, e.ar.IConst(0), u.Idx), e.ar.Cmp(token.LEQ, tInt, u.Idx, e.rsize(u.Reg)),
				e.ar.Cmp(token.LEQ, tInt, e.rsize(u.Reg), e.ar.Const(tInt, bigPow2(47))))
		}
	case VIface:
		return And(x.allocFact(st, u.Ref), e.ar.Cmp(token.LEQ, tInt, e.ar.IConst(0), u.Tag), Implies(Eq(u.Tag, e.ar.IConst(0)), Eq(u.Ref, e.ar.IConst(0))))
	case VStruct:
		s := t.Underlying().(*types.Struct)
		var cs []*Term
		for i, f := range u.F {
			cs = append(cs, x.wf(st, s.Field(i).Type(), f))
		}
		return And(cs...)
	}
	return True
}

// ---------------------------------------------------------------------------------
// obligations

func (x *Exec) ordinal(in ssa.Instruction, kind string) int {
	if x.ordinals == nil {
		x.ordinals = map[ssa.Instruction]int{}
	}
	if n, ok := x.ordinals[in]; ok {
		return n
	}
	fn := in.Parent()
	counts := map[string]int{}
	for _, b := range fn.Blocks {
		for _, i := range b.Instrs {
			k := instrKind(i)
			if k == "" {
				continue
			}
			counts[k]++
			x.ordinals[i] = counts[k]
		}
	}
	return x.ordinals[in]
}

func instrKind(i ssa.Instruction) string {
	switch v := i.(type) {
	case *ssa.IndexAddr, *ssa.Index:
		return "index"
	case *ssa.Lookup:
		return "index"
	case *ssa.Slice:
		return "slice"
	case *ssa.BinOp:
		if v.Op == token.QUO || v.Op == token.REM {
			return "div"
		}
		return "arith"
	case *ssa.Convert:
		return "arith"
	case *ssa.UnOp:
		if v.Op == token.MUL {
			return "load"
		}
		return "arith"
	case *ssa.Store:
		return "store"
	case *ssa.TypeAssert:
		return "assert-type"
	case *ssa.MakeSlice:
		return "makeslice"
	case *ssa.Call:
		return "call"
	case *ssa.Panic:
		return "panic"
	case *ssa.FieldAddr, *ssa.Field:
		return "nil"
	case *ssa.MapUpdate:
		return "mapupdate"
	}
	return ""
}

func (x *Exec) obName(st *State, in ssa.Instruction, kind string) string {
	fr := st.ext().fr
	n := x.ordinal(in, instrKind(in))
	if fr.parent != nil {
		return fmt.Sprintf("%s/%s@%s#%d", x.qname, kind, x.e.qualName(fr.fn), n)
	}
	return fmt.Sprintf("%s/%s#%d", x.qname, kind, n)
}

func (x *Exec) posOf(in ssa.Instruction) string {
	if in == nil {
		return ""
	}
	p := x.e.prog.Fset.Position(in.Pos())
	if !p.IsValid() {
		return ""
	}
	f := p.Filename
	if i := strings.Index(f, "/repo/"); i >= 0 {
		f = f[i+6:]
	}
	return fmt.Sprintf("%s:%d", f, p.Line)
}

// oblige records a proof obligation and then assumes it (execution continues past the check).
func (x *Exec) oblige(st *State, name, kind string, goal *Term, text, pos string, tags []string) {
	if st.dead || x.pure > 0 {
		return
	}
	goals := splitGoal(goal)
	for i, g := range goals {
		txt := text
		if len(goals) > 1 {
			txt = fmt.Sprintf("%s  [conjunct %d of %d]", text, i+1, len(goals))
		}
		ob := &Obligation{Name: name, Func: x.qname, Kind: kind, Text: txt, Pos: pos, Tags: tags, Mode: x.e.ar.Mode,
			Goal: g, Assume: st.pc[:len(st.pc):len(st.pc)], Path: strings.Join(st.trace, ">"), Replay: x.replayInfo, Clause: x.curClause}
		if g.IsTrue() {
			ob.Status = "unsat"
			ob.Solver = "syntactic"
		}
		x.e.mu.Lock()
		x.e.obligations = append(x.e.obligations, ob)
		x.e.mu.Unlock()
		if !g.IsFalse() {
			// (a goal that is literally false - "this callee needs a contract" - is reported, not assumed:
			// assuming it would make the rest of the path vacuous)
			st.assume(g)
		}
	}
}

func (x *Exec) safety(st *State, in ssa.Instruction, kind string, goal *Term, text string) {
	if !x.primary && x.top != nil && !x.initMode && x.pure == 0 {
		// secondary passes (clause groups) re-run the same code: safety was checked in the primary pass
		st.assume(goal)
		return
	}
	x.oblige(st, x.obName(st, in, kind), kind, goal, text, x.posOf(in), nil)
}

// ---------------------------------------------------------------------------------
// running

func (x *Exec) pushFrame(st *State, fn *ssa.Function, args []Val, ret func(st *State, results []Val)) *Frame {
	x.frameSeq++
	ex := st.ext()
	fr := &Frame{fn: fn, regs: map[ssa.Value]Val{}, parent: ex.fr, id: x.frameSeq, ret: ret, loops: map[*ssa.BasicBlock]*loopSnap{}, cellSeq: map[*ssa.Alloc]int{}}
	if len(args) != len(fn.Params) {
		x.fail("arity mismatch calling %s", fn.Name())
	}
	for i, p := range fn.Params {
		fr.regs[p] = args[i]
	}
	ex.fr = fr
	ex.depth++
	return fr
}

func (x *Exec) runBlock(st *State, b, from *ssa.BasicBlock) {
	if st.dead {
		return
	}
	fr := st.ext().fr
	li := x.e.loops(fr.fn)
	st.trace = append(st.trace, fmt.Sprintf("%d", b.Index))
	if hdr := li.headers[b]; hdr != nil {
		if from != nil && li.isBack(from, b) {
			x.loopBack(st, fr, hdr)
			return
		}
		if !x.loopEnter(st, fr, hdr) {
			return
		}
	}
	x.runFrom(st, b, 0, from)
}

func (x *Exec) runFrom(st *State, b *ssa.BasicBlock, start int, from *ssa.BasicBlock) {
	for i := start; i < len(b.Instrs); i++ {
		if st.dead {
			return
		}
		in := b.Instrs[i]
		switch v := in.(type) {
		case *ssa.If:
			c := x.term(st, v.Cond)
			if c.IsTrue() {
				x.runBlock(st, b.Succs[0], b)
				return
			}
			if c.IsFalse() {
				x.runBlock(st, b.Succs[1], b)
				return
			}
			x.paths++
			if x.paths > x.e.maxPaths {
				x.fail("path limit %d exceeded", x.e.maxPaths)
			}
			st2 := x.cloneState(st)
			st.assume(c)
			st.br = append(st.br, c)
			x.runBlock(st, b.Succs[0], b)
			x.dropState(st)
			nc := Not(c)
			st2.assume(nc)
			st2.br = append(st2.br, nc)
			x.runBlock(st2, b.Succs[1], b)
			x.dropState(st2)
			return
		case *ssa.Jump:
			x.runBlock(st, b.Succs[0], b)
			return
		case *ssa.Return:
			var rs []Val
			for _, r := range v.Results {
				rs = append(rs, x.val(st, r))
			}
			x.doReturn(st, v, rs)
			return
		case *ssa.Panic:
			x.safety(st, v, "panic", False, "explicit panic is unreachable")
			st.dead = true
			return
		case *ssa.Call:
			// continuation: resume this block after the call
			blk, idx := b, i
			x.call(st, v, func(st *State, res Val) {
				if res != nil {
					st.ext().fr.regs[v] = res
				}
				x.runFrom(st, blk, idx+1, from)
			})
			return
		case *ssa.Phi:
			// NaiveForm keeps phis only for && / || and for the hidden index of range loops.
			// A phi in a loop header is a loop-carried value: it is havocked like the cells
			// assigned in the loop (the index of a range loop is known to be >= -1).
			if li := x.e.loops(st.ext().fr.fn); li.headers[b] != nil {
				nv := x.freshVal(st, v.Type(), "h_phi")
				for _, e := range v.Edges {
					if c, ok := e.(*ssa.Const); ok && c.Value != nil && c.Int64() == -1 {
						if n, ok := numOf(v.Type()); ok {
							st.assume(x.e.ar.Cmp(token.LEQ, n, x.e.ar.ConstI(n, -1), nv.(VScalar).T))
						}
					}
				}
				st.ext().fr.regs[v] = nv
				continue
			}
			found := false
			for k, p := range b.Preds {
				if p == from {
					st.ext().fr.regs[v] = x.val(st, v.Edges[k])
					found = true
					break
				}
			}
			if !found {
				x.fail("phi without matching predecessor")
			}
		default:
			x.instr(st, in)
		}
	}
}

func (x *Exec) doReturn(st *State, ret *ssa.Return, rs []Val) {
	ex := st.ext()
	fr := ex.fr
	if fr.parent != nil || fr.ret != nil {
		k := fr.ret
		ex.fr = fr.parent
		ex.depth--
		k(st, rs)
		return
	}
	x.retCount++
	x.checkPost(st, ret, rs)
}

// ---------------------------------------------------------------------------------
// instructions

func (x *Exec) instr(st *State, in ssa.Instruction) {
	e := x.e
	fr := st.ext().fr
	set := func(v ssa.Value, val Val) { fr.regs[v] = val }
	switch v := in.(type) {
	case *ssa.DebugRef, *ssa.RunDefers:
	case *ssa.Alloc:
		set(v, x.alloc(st, v))
	case *ssa.Store:
		x.store(st, v, x.val(st, v.Addr), v.Val.Type(), x.val(st, v.Val))
	case *ssa.UnOp:
		if v.Op == token.MUL {
			set(v, x.load(st, v, x.val(st, v.X), v.Type()))
			return
		}
		if v.Op == token.ARROW {
			x.fail("channel receive unsupported")
		}
		set(v, x.guard(func() Val { return st.unop(v.Op, v.X.Type(), x.val(st, v.X)) }))
	case *ssa.BinOp:
		a, b := x.val(st, v.X), x.val(st, v.Y)
		if v.Op == token.QUO || v.Op == token.REM {
			if n, ok := numOf(v.X.Type()); ok && !n.Float {
				z := e.ar.ConstI(n, 0)
				x.safety(st, v, "div", Not(Eq(b.(VScalar).T, z)), "divisor is non-zero")
			}
		}
		e.ar.SideCond = func(c *Term, what string) { x.safety(st, v, "overflow", c, what) }
		var r Val
		func() {
			defer func() { e.ar.SideCond = nil }()
			r = x.guard(func() Val { return st.binop(v.Op, v.X.Type(), a, b, v.Y.Type()) })
		}()
		set(v, r)
	case *ssa.Convert:
		e.ar.SideCond = func(c *Term, what string) { x.safety(st, v, "overflow", c, what) }
		var r Val
		func() {
			defer func() { e.ar.SideCond = nil }()
			r = x.guard(func() Val { return st.convert(v.X.Type(), v.Type(), x.val(st, v.X)) })
		}()
		set(v, r)
	case *ssa.ChangeType:
		set(v, x.val(st, v.X))
	case *ssa.MultiConvert:
		set(v, x.guard(func() Val { return st.convert(v.X.Type(), v.Type(), x.val(st, v.X)) }))
	case *ssa.MakeInterface:
		set(v, x.makeIface(st, v.X.Type(), x.val(st, v.X)))
	case *ssa.ChangeInterface:
		set(v, x.val(st, v.X))
	case *ssa.TypeAssert:
		set(v, x.typeAssert(st, v))
	case *ssa.Extract:
		t, ok := x.val(st, v.Tuple).(VTuple)
		if !ok {
			x.fail("extract from non-tuple")
		}
		set(v, t.F[v.Index])
	case *ssa.FieldAddr:
		set(v, x.fieldAddr(st, v))
	case *ssa.Field:
		sv, ok := x.val(st, v.X).(VStruct)
		if !ok {
			x.fail("field of non-struct value")
		}
		set(v, sv.F[v.Field])
	case *ssa.IndexAddr:
		set(v, x.indexAddr(st, v))
	case *ssa.Index:
		set(v, x.index(st, v))
	case *ssa.Lookup:
		set(v, x.lookup(st, v))
	case *ssa.Slice:
		set(v, x.slice(st, v))
	case *ssa.MakeSlice:
		set(v, x.makeSlice(st, v))
	case *ssa.MakeMap:
		ref := st.freshID("map")
		st.heapSet("MapLen", Store(st.heapGet("MapLen", e.fldSort(e.ar.I())), ref, e.ar.IConst(0)))
		set(v, VRef{ref})
	case *ssa.MapUpdate:
		x.mapUpdate(st, v)
	case *ssa.Range:
		set(v, VTuple{[]Val{x.val(st, v.X)}})
	case *ssa.Next:
		set(v, x.next(st, v))
	case *ssa.MakeClosure:
		if len(v.Bindings) > 0 {
			x.fail("closures with captured variables unsupported")
		}
		set(v, VFunc{Fn: v.Fn.(*ssa.Function)})
	case *ssa.Go, *ssa.Defer, *ssa.Select, *ssa.Send, *ssa.MakeChan:
		x.fail("unsupported concurrency/defer construct %T", in)
	default:
		x.fail("unsupported instruction %T: %s", in, in)
	}
}

func (x *Exec) guard(f func() Val) (r Val) {
	defer func() {
		if p := recover(); p != nil {
			if oe, ok := p.(opErr); ok {
				x.fail("%s", string(oe))
			}
			panic(p)
		}
	}()
	return f()
}

func (x *Exec) alloc(st *State, v *ssa.Alloc) Val {
	e := x.e
	t := v.Type().Underlying().(*types.Pointer).Elem()
	fr := st.ext().fr
	if !v.Heap {
		ck := cellKey{A: v, Frame: fr.id}
		st.cells[ck] = e.zeroVal(t)
		st.ext().seq++
		fr.cellSeq[v] = st.ext().seq
		return VPtr{Cell: &ck}
	}
	if isStruct(t) {
		ref := st.freshID("obj")
		st.storeStruct(t, ref, e.zeroVal(t))
		return VRef{ref}
	}
	if at, ok := t.Underlying().(*types.Array); ok {
		reg := st.freshID("arr")
		st.assume(Eq(e.rsize(reg), e.ar.IConst(at.Len())))
		if !isStruct(at.Elem()) {
			ls := e.leaves(at.Elem())
			for _, l := range ls {
				name := memName(at.Elem(), l.Name)
				m := st.heapGet(name, e.memSort(l.S))
				st.heapSet(name, Store(m, reg, ConstArr(ArraySort(e.ar.I(), l.S), e.zeroLeaf(l.S))))
			}
		}
		return VPtr{Reg: reg, Idx: e.ar.IConst(0)}
	}
	reg := st.freshID("box")
	st.assume(Eq(e.rsize(reg), e.ar.IConst(1)))
	st.storeElem(t, reg, e.ar.IConst(0), e.zeroVal(t))
	return VPtr{Reg: reg, Idx: e.ar.IConst(0)}
}

func getPath(v Val, path []int) Val {
	for _, p := range path {
		v = v.(VStruct).F[p]
	}
	return v
}

func setPath(v Val, path []int, nv Val) Val {
	if len(path) == 0 {
		return nv
	}
	s := v.(VStruct)
	fs := append([]Val{}, s.F...)
	fs[path[0]] = setPath(fs[path[0]], path[1:], nv)
	return VStruct{fs}
}

func (x *Exec) load(st *State, in ssa.Instruction, addr Val, t types.Type) Val {
	e := x.e
	arrSel := func(v Val, p VPtr) Val {
		if p.ArrIdx == nil {
			return v
		}
		a, ok := v.(VArr)
		if !ok {
			x.fail("array index into non-array value")
		}
		return e.fromLeaves(t, []*Term{SelectD(a.A, p.ArrIdx)})
	}
	switch p := addr.(type) {
	case VPtr:
		if p.Cell != nil {
			c, ok := st.cells[*p.Cell]
			if !ok {
				x.fail("load from dead cell")
			}
			v := getPath(c, p.Path)
			// *(*string)(unsafe.Pointer(&b)) with b a []byte: the slice header read as a string header
			if sl, ok := v.(VSlice); ok && isString(t) {
				return VString{Reg: sl.Reg, Arr: st.regionArr(byteType, sl.Reg), Off: sl.Off, Len: sl.Len}
			}
			return arrSel(v, p)
		}
		if p.Global != nil {
			return arrSel(x.loadGlobal(st, p.Global, p.Path), p)
		}
		if p.FRef != nil {
			v := arrSel(st.loadField(p.FSty, p.FIdx, p.FRef), p)
			st.assume(x.wf(st, t, v))
			return v
		}
		if p.ObjRef != nil {
			x.fail("load through object pointer viewed as unsafe.Pointer")
		}
		x.safety(st, in, "nil", Not(Eq(p.Reg, e.ar.IConst(0))), "pointer is non-nil")
		if p.Orig != nil && isByteSlice(p.Orig) && isString(t) && !p.ByteView {
			// *(*string)(unsafe.Pointer(&b)) with b an escaping []byte: the slice header read as a string header
			if sl, ok := st.loadElem(p.Orig, p.Reg, p.Idx).(VSlice); ok {
				return VString{Reg: sl.Reg, Arr: st.regionArr(byteType, sl.Reg), Off: sl.Off, Len: sl.Len}
			}
		}
		v := x.loadTyped(st, in, p, t)
		st.assume(x.wf(st, t, v))
		return v
	case VRef:
		if !(p.T.Op == "app" && (strings.HasPrefix(p.T.Name, "sub_") || p.T.Name == "elemref")) {
			x.safety(st, in, "nil", Not(Eq(p.T, e.ar.IConst(0))), "pointer is non-nil")
		}
		if !isStruct(t) {
			x.fail("load of non-struct through object reference")
		}
		v := st.loadStructIn(st.heap, t, p.T)
		st.assume(x.wf(st, t, v))
		return v
	}
	x.fail("load through %T", addr)
	return nil
}

// loadTyped reads a value of type t at (reg, idx); if the region is a byte region and t is
// a wider integer, the value is composed little-endian (GOARCH amd64/arm64).
func (x *Exec) loadTyped(st *State, in ssa.Instruction, p VPtr, t types.Type) Val {
	e := x.e
	if p.Bytes() {
		n, ok := numOf(t)
		if ok && !n.Float && n.Bits > 8 && e.ar.Mode == ModeBV {
			x.readFootprint(st, in, p, int64(n.Bits/8))
			var r *Term
			for k := 0; k < n.Bits/8; k++ {
				b := st.loadElem(byteType, p.Reg, e.ar.Bin(token.ADD, tInt, p.Idx, e.ar.IConst(int64(k)))).(VScalar).T
				if r == nil {
					r = b
				} else {
					r = &Term{Op: "concat", S: BV(r.S.W + 8), Args: []*Term{b, r}}
				}
			}
			return VScalar{r}
		}
		if ok && !n.Float && n.Bits > 8 {
			// int mode: little-endian digits
			x.readFootprint(st, in, p, int64(n.Bits/8))
			var r *Term
			for k := n.Bits/8 - 1; k >= 0; k-- {
				b := st.loadElem(byteType, p.Reg, e.ar.Bin(token.ADD, tInt, p.Idx, e.ar.IConst(int64(k)))).(VScalar).T
				tagBits(b, 8)
				if r == nil {
					r = b
				} else {
					r = IntOp("+", IntOp("*", r, ConstI(IntSort, 256)), b)
				}
			}
			if n.Signed {
				x.fail("signed wide load through byte pointer in int mode")
			}
			return VScalar{tagBits(r, n.Bits)}
		}
		x.readFootprint(st, in, p, 1)
		return st.loadElem(byteType, p.Reg, p.Idx)
	}
	return st.loadElem(t, p.Reg, p.Idx)
}

func (p VPtr) Bytes() bool { return p.ByteView }

// readFootprint: unsafe byte access must lie inside the region
func (x *Exec) readFootprint(st *State, in ssa.Instruction, p VPtr, n int64) {
	e := x.e
	lo := e.ar.Cmp(token.LEQ, tInt, e.ar.IConst(0), p.Idx)
	hi := e.ar.Cmp(token.LEQ, tInt, e.ar.Bin(token.ADD, tInt, p.Idx, e.ar.IConst(n)), e.rsize(p.Reg))
	x.safety(st, in, "reads", And(lo, hi), "unsafe access lies inside the allocation it points into")
}

func (x *Exec) store(st *State, in ssa.Instruction, addr Val, t types.Type, v Val) {
	e := x.e
	arrUpd := func(old Val, p VPtr) Val {
		if p.ArrIdx == nil {
			return v
		}
		a, ok := old.(VArr)
		if !ok {
			x.fail("array index into non-array value")
		}
		return VArr{Store(a.A, p.ArrIdx, e.toLeaves(t, v)[0])}
	}
	switch p := addr.(type) {
	case VPtr:
		if p.Cell != nil {
			c, ok := st.cells[*p.Cell]
			if !ok {
				x.fail("store to dead cell")
			}
			st.cells[*p.Cell] = setPath(c, p.Path, arrUpd(getPath(c, p.Path), p))
			return
		}
		if p.Global != nil {
			if p.ArrIdx != nil {
				old := x.loadGlobal(st, p.Global, p.Path)
				x.storeGlobal(st, in, p.Global, p.Path, arrUpd(old, p))
				return
			}
			x.storeGlobal(st, in, p.Global, p.Path, v)
			return
		}
		if p.FRef != nil {
			x.checkAssign(st, in, "field", nil, nil, nil, p.FSty, p.FIdx, p.FRef)
			st.storeField(p.FSty, p.FIdx, p.FRef, arrUpd(st.loadField(p.FSty, p.FIdx, p.FRef), p))
			return
		}
		if p.ObjRef != nil {
			x.fail("store through object pointer viewed as unsafe.Pointer")
		}
		x.safety(st, in, "nil", Not(Eq(p.Reg, e.ar.IConst(0))), "pointer is non-nil")
		if p.Bytes() {
			n, ok := numOf(t)
			if ok && !n.Float && n.Bits > 8 && e.ar.Mode == ModeBV {
				x.readFootprint(st, in, p, int64(n.Bits/8))
				for k := 0; k < n.Bits/8; k++ {
					idx := e.ar.Bin(token.ADD, tInt, p.Idx, e.ar.IConst(int64(k)))
					x.checkAssign(st, in, "range", byteType, p.Reg, idx, nil, 0, nil)
					st.storeElem(byteType, p.Reg, idx, VScalar{Extract(8*k+7, 8*k, v.(VScalar).T)})
				}
				return
			}
			if ok && n.Bits > 8 {
				x.storeWideInt(st, in, p, n, v)
				return
			}
			x.readFootprint(st, in, p, 1)
			x.checkAssign(st, in, "range", byteType, p.Reg, p.Idx, nil, 0, nil)
			st.storeElem(byteType, p.Reg, p.Idx, v)
			return
		}
		x.checkAssign(st, in, "range", t, p.Reg, p.Idx, nil, 0, nil)
		st.storeElem(t, p.Reg, p.Idx, v)
	case VRef:
		x.safety(st, in, "nil", Not(Eq(p.T, e.ar.IConst(0))), "pointer is non-nil")
		s, ok := t.Underlying().(*types.Struct)
		if !ok {
			x.fail("store of non-struct through object reference")
		}
		for i := 0; i < s.NumFields(); i++ {
			x.checkAssign(st, in, "field", nil, nil, nil, t, i, p.T)
		}
		st.storeStruct(t, p.T, v)
	default:
		x.fail("store through %T", addr)
	}
}

func (x *Exec) storeWideInt(st *State, in ssa.Instruction, p VPtr, n NumT, v Val) {
	e := x.e
	if n.Signed || n.Float {
		x.fail("signed/float wide store through byte pointer in int mode")
	}
	x.readFootprint(st, in, p, int64(n.Bits/8))
	t := v.(VScalar).T
	for k := 0; k < n.Bits/8; k++ {
		idx := e.ar.Bin(token.ADD, tInt, p.Idx, e.ar.IConst(int64(k)))
		x.checkAssign(st, in, "range", byteType, p.Reg, idx, nil, 0, nil)
		d := IntOp("mod", IntOp("div", t, Const(IntSort, bigPow2(uint(8*k)))), ConstI(IntSort, 256))
		st.storeElem(byteType, p.Reg, idx, VScalar{d})
	}
}

func (x *Exec) fieldAddr(st *State, v *ssa.FieldAddr) Val {
	e := x.e
	base := x.val(st, v.X)
	sty := v.X.Type().Underlying().(*types.Pointer).Elem()
	switch p := base.(type) {
	case VPtr:
		if p.Cell != nil || p.Global != nil {
			np := p
			np.Path = append(append([]int{}, p.Path...), v.Field)
			return np
		}
		x.fail("field address through element pointer")
	case VRef:
		if !(p.T.Op == "app" && (strings.HasPrefix(p.T.Name, "sub_") || p.T.Name == "elemref")) {
			x.safety(st, v, "nil", Not(Eq(p.T, e.ar.IConst(0))), "receiver/pointer is non-nil")
		}
		ft := sty.Underlying().(*types.Struct).Field(v.Field).Type()
		if isStruct(ft) {
			return VRef{e.subRef(sty, v.Field, p.T)}
		}
		return VPtr{FRef: p.T, FSty: sty, FIdx: v.Field}
	}
	x.fail("fieldAddr on %T", base)
	return nil
}

func (x *Exec) indexAddr(st *State, v *ssa.IndexAddr) Val {
	e := x.e
	base := x.val(st, v.X)
	it, _ := numOf(v.Index.Type())
	idx := e.ar.Conv(it, tInt, x.term(st, v.Index))
	z := e.ar.IConst(0)
	switch b := base.(type) {
	case VSlice:
		elem := v.X.Type().Underlying().(*types.Slice).Elem()
		x.safety(st, v, "index", And(e.ar.Cmp(token.LEQ, tInt, z, idx), e.ar.Cmp(token.LSS, tInt, idx, b.Len)), "index within slice length")
		abs := e.ar.Bin(token.ADD, tInt, b.Off, idx)
		if isStruct(elem) {
			return VRef{e.elemRef(b.Reg, abs)}
		}
		return VPtr{Reg: b.Reg, Idx: abs}
	case VPtr:
		at, ok := v.X.Type().Underlying().(*types.Pointer).Elem().Underlying().(*types.Array)
		if !ok {
			x.fail("indexAddr through non-array pointer")
		}
		n := e.ar.IConst(at.Len())
		x.safety(st, v, "index", And(e.ar.Cmp(token.LEQ, tInt, z, idx), e.ar.Cmp(token.LSS, tInt, idx, n)), "index within array length")
		if b.Cell != nil || b.Global != nil || b.FRef != nil {
			// element of an array value held in a cell / global / field
			np := b
			np.ArrIdx = idx
			return np
		}
		return VPtr{Reg: b.Reg, Idx: e.ar.Bin(token.ADD, tInt, b.Idx, idx)}
	}
	x.fail("indexAddr on %T", base)
	return nil
}

func (x *Exec) index(st *State, v *ssa.Index) Val {
	e := x.e
	base := x.val(st, v.X)
	it, _ := numOf(v.Index.Type())
	idx := e.ar.Conv(it, tInt, x.term(st, v.Index))
	z := e.ar.IConst(0)
	switch b := base.(type) {
	case VArr:
		at := v.X.Type().Underlying().(*types.Array)
		x.safety(st, v, "index", And(e.ar.Cmp(token.LEQ, tInt, z, idx), e.ar.Cmp(token.LSS, tInt, idx, e.ar.IConst(at.Len()))), "index within array length")
		return e.fromLeaves(at.Elem(), []*Term{SelectD(b.A, idx)})
	case VString:
		x.safety(st, v, "index", And(e.ar.Cmp(token.LEQ, tInt, z, idx), e.ar.Cmp(token.LSS, tInt, idx, b.Len)), "index within string length")
		return VScalar{SelectD(b.Arr, e.ar.Bin(token.ADD, tInt, b.Off, idx))}
	}
	x.fail("index on %T", base)
	return nil
}

func (x *Exec) lookup(st *State, v *ssa.Lookup) Val {
	e := x.e
	base := x.val(st, v.X)
	if s, ok := base.(VString); ok {
		it, _ := numOf(v.Index.Type())
		idx := e.ar.Conv(it, tInt, x.term(st, v.Index))
		z := e.ar.IConst(0)
		x.safety(st, v, "index", And(e.ar.Cmp(token.LEQ, tInt, z, idx), e.ar.Cmp(token.LSS, tInt, idx, s.Len)), "index within string length")
		return VScalar{SelectD(s.Arr, e.ar.Bin(token.ADD, tInt, s.Off, idx))}
	}
	// map lookup: abstracted (value unconstrained)
	mt := v.X.Type().Underlying().(*types.Map)
	val := x.freshVal(st, mt.Elem(), "mapval")
	if v.CommaOk {
		return VTuple{[]Val{val, VScalar{e.fresh("mapok", BoolSort)}}}
	}
	return val
}

func (x *Exec) slice(st *State, v *ssa.Slice) Val {
	e := x.e
	base := x.val(st, v.X)
	z := e.ar.IConst(0)
	conv := func(o ssa.Value) *Term {
		it, _ := numOf(o.Type())
		return e.ar.Conv(it, tInt, x.term(st, o))
	}
	le := func(a, b *Term) *Term { return e.ar.Cmp(token.LEQ, tInt, a, b) }
	switch b := base.(type) {
	case VSlice:
		lo, hi, max := z, b.Len, b.Cap
		if v.Low != nil {
			lo = conv(v.Low)
		}
		if v.High != nil {
			hi = conv(v.High)
		}
		if v.Max != nil {
			max = conv(v.Max)
		}
		x.safety(st, v, "slice", And(le(z, lo), le(lo, hi), le(hi, max), le(max, b.Cap)), "slice bounds 0 <= low <= high <= max <= cap")
		return VSlice{Reg: b.Reg, Off: e.ar.Bin(token.ADD, tInt, b.Off, lo), Len: e.ar.Bin(token.SUB, tInt, hi, lo), Cap: e.ar.Bin(token.SUB, tInt, max, lo)}
	case VString:
		lo, hi := z, b.Len
		if v.Low != nil {
			lo = conv(v.Low)
		}
		if v.High != nil {
			hi = conv(v.High)
		}
		x.safety(st, v, "slice", And(le(z, lo), le(lo, hi), le(hi, b.Len)), "string slice bounds 0 <= low <= high <= len")
		return VString{Reg: b.Reg, Arr: b.Arr, Off: e.ar.Bin(token.ADD, tInt, b.Off, lo), Len: e.ar.Bin(token.SUB, tInt, hi, lo)}
	case VPtr:
		at, ok := v.X.Type().Underlying().(*types.Pointer).Elem().Underlying().(*types.Array)
		if !ok || b.Cell != nil {
			x.fail("slice of non-array pointer / local array")
		}
		n := e.ar.IConst(at.Len())
		lo, hi := z, n
		if v.Low != nil {
			lo = conv(v.Low)
		}
		if v.High != nil {
			hi = conv(v.High)
		}
		x.safety(st, v, "slice", And(le(z, lo), le(lo, hi), le(hi, n)), "array slice bounds")
		return VSlice{Reg: b.Reg, Off: e.ar.Bin(token.ADD, tInt, b.Idx, lo), Len: e.ar.Bin(token.SUB, tInt, hi, lo), Cap: e.ar.Bin(token.SUB, tInt, n, lo)}
	}
	x.fail("slice on %T", base)
	return nil
}

func (x *Exec) makeSlice(st *State, v *ssa.MakeSlice) Val {
	e := x.e
	lt, _ := numOf(v.Len.Type())
	ct, _ := numOf(v.Cap.Type())
	ln := e.ar.Conv(lt, tInt, x.term(st, v.Len))
	cp := e.ar.Conv(ct, tInt, x.term(st, v.Cap))
	z := e.ar.IConst(0)
	le := func(a, b *Term) *Term { return e.ar.Cmp(token.LEQ, tInt, a, b) }
	x.safety(st, v, "makeslice", And(le(z, ln), le(ln, cp)), "make: 0 <= len <= cap")
	// allocation of the requested size is assumed to succeed (sizes up to 2^47)
	st.assume(le(cp, e.ar.Const(tInt, bigPow2(47))))
	elem := v.Type().Underlying().(*types.Slice).Elem()
	reg := st.freshID("mk")
	st.assume(Eq(e.rsize(reg), cp))
	if !isStruct(elem) {
		for _, l := range e.leaves(elem) {
			name := memName(elem, l.Name)
			m := st.heapGet(name, e.memSort(l.S))
			st.heapSet(name, Store(m, reg, ConstArr(ArraySort(e.ar.I(), l.S), e.zeroLeaf(l.S))))
		}
	} else {
		x.zeroStructElems(st, elem, reg)
	}
	return VSlice{Reg: reg, Off: z, Len: ln, Cap: cp}
}

// zeroStructElems: all elements of a fresh region of struct type are zero (quantified fact)
func (x *Exec) zeroStructElems(st *State, elem types.Type, reg *Term) {
	e := x.e
	s := elem.Underlying().(*types.Struct)
	k := Var("$b_kz", e.ar.I())
	for i := 0; i < s.NumFields(); i++ {
		ft := s.Field(i).Type()
		if isStruct(ft) {
			continue
		}
		for _, l := range e.leaves(ft) {
			m := st.heapGet(fldName(elem, s.Field(i).Name(), l.Name), e.fldSort(l.S))
			app := Select(m, e.elemRef(reg, k))
			st.assume(Forall([]*Term{k}, Eq(app, e.zeroLeaf(l.S)), app))
		}
	}
}

func (x *Exec) makeIface(st *State, t types.Type, v Val) Val {
	e := x.e
	if isIface(t) {
		return v
	}
	tag := e.ar.IConst(int64(e.typeTag(t)))
	switch p := v.(type) {
	case VRef:
		if _, ok := t.Underlying().(*types.Pointer); ok {
			return VIface{Tag: tag, Ref: p.T}
		}
	}
	// box the value
	ref := st.freshID("ifbox")
	if isStruct(t) {
		st.storeStruct(t, ref, v)
	} else {
		ls := e.leaves(t)
		ts := e.toLeaves(t, v)
		for i, l := range ls {
			name := "Box_" + typeKey(t) + "_" + l.Name
			st.heapSet(name, Store(st.heapGet(name, e.fldSort(l.S)), ref, ts[i]))
		}
	}
	return VIface{Tag: tag, Ref: ref}
}

func (x *Exec) unbox(st *State, t types.Type, ref *Term) Val {
	e := x.e
	if _, ok := isStructPtr(t); ok {
		return VRef{ref}
	}
	if isStruct(t) {
		return st.loadStructIn(st.heap, t, ref)
	}
	ls := e.leaves(t)
	ts := make([]*Term, len(ls))
	for i, l := range ls {
		ts[i] = SelectD(st.heapGet("Box_"+typeKey(t)+"_"+l.Name, e.fldSort(l.S)), ref)
	}
	return e.fromLeaves(t, ts)
}

func (e *Engine) implTerm(iface types.Type, tag *Term) *Term {
	ik := typeKey(iface)
	if it, ok := iface.Underlying().(*types.Interface); ok {
		if tag.IsConst() && tag.Val.IsInt64() {
			id := int(tag.Val.Int64())
			if id == 0 {
				return False
			}
			if id <= len(e.tagTypes) {
				return Bool(e.tagImplements(id, it))
			}
		}
		e.ifaceAsserts[ik] = it
	}
	return App("impl_"+ik, BoolSort, tag)
}

func (x *Exec) typeAssert(st *State, v *ssa.TypeAssert) Val {
	e := x.e
	iv, ok := x.val(st, v.X).(VIface)
	if !ok {
		x.fail("type assertion on non-interface value")
	}
	var okT *Term
	var res Val
	if isIface(v.AssertedType) {
		okT = e.implTerm(v.AssertedType, iv.Tag)
		res = iv
	} else {
		okT = Eq(iv.Tag, e.ar.IConst(int64(e.typeTag(v.AssertedType))))
		res = x.unbox(st, v.AssertedType, iv.Ref)
	}
	if v.CommaOk {
		// on failure the value is the zero value
		zero := e.zeroVal(v.AssertedType)
		return VTuple{[]Val{iteVal(e, v.AssertedType, okT, res, zero), VScalar{okT}}}
	}
	x.safety(st, v, "assert-type", okT, "type assertion holds: dynamic type is "+v.AssertedType.String())
	return res
}

func (x *Exec) mapUpdate(st *State, v *ssa.MapUpdate) {
	e := x.e
	m := x.val(st, v.Map).(VRef)
	x.safety(st, v, "nil", Not(Eq(m.T, e.ar.IConst(0))), "assignment to entry in nil map")
	// abstraction: only the length is tracked, and only as "may grow by one"
	ml := st.heapGet("MapLen", e.fldSort(e.ar.I()))
	old := SelectD(ml, m.T)
	nl := e.fresh("maplen", e.ar.I())
	st.assume(Or(Eq(nl, old), Eq(nl, e.ar.Bin(token.ADD, tInt, old, e.ar.IConst(1)))))
	st.heapSet("MapLen", Store(ml, m.T, nl))
}

// next: iteration over a map is abstracted: an arbitrary number of iterations, each yielding
// an arbitrary key/value of the right types (map contents are not modelled). Loop invariants
// must therefore not depend on which entries are visited.
func (x *Exec) next(st *State, v *ssa.Next) Val {
	if v.IsString {
		x.fail("range over string unsupported")
	}
	tup := v.Type().(*types.Tuple)
	ok := VScalar{x.e.fresh("rangeok", BoolSort)}
	var kv, vv Val
	kt, vt := tup.At(1).Type(), tup.At(2).Type()
	if isValidType(kt) {
		kv = x.freshVal(st, kt, "rangekey")
	} else {
		kv = VScalar{False}
	}
	if isValidType(vt) {
		vv = x.freshVal(st, vt, "rangeval")
	} else {
		vv = VScalar{False}
	}
	x.e.assumptions["range over a map is an arbitrary number of iterations over arbitrary entries (map contents are not modelled)"] = true
	// the one thing that is known: an empty (or nil) map yields nothing
	if it, isTup := x.val(st, v.Iter).(VTuple); isTup && len(it.F) == 1 {
		if mr, isRef := it.F[0].(VRef); isRef {
			ml := SelectD(st.heapGet("MapLen", x.e.fldSort(x.e.ar.I())), mr.T)
			st.assume(Implies(ok.T, x.e.ar.Cmp(token.GTR, tInt, ml, x.e.ar.IConst(0))))
		}
	}
	return VTuple{[]Val{ok, kv, vv}}
}

func isValidType(t types.Type) bool {
	if b, ok := t.(*types.Basic); ok && b.Kind() == types.Invalid {
		return false
	}
	return true
}

// ---------------------------------------------------------------------------------
// globals

func (x *Exec) loadGlobal(st *State, g *ssa.Global, path []int) Val {
	t := g.Type().Underlying().(*types.Pointer).Elem()
	if x.initMode && g.Pkg == x.initPkg {
		v, ok := st.cells[globalCellKey(g)]
		if !ok {
			v = x.e.zeroVal(t)
		}
		return x.getPathIdx(st, v, t, path)
	}
	v := x.e.globalVal(st, g, t)
	return x.getPathIdx(st, v, t, path)
}

func (x *Exec) getPathIdx(st *State, v Val, t types.Type, path []int) Val {
	for _, p := range path {
		switch p {
		case -4:
			x.fail("symbolic index into array value through pointer: use Index")
		default:
			v = v.(VStruct).F[p]
		}
	}
	return v
}

func (x *Exec) storeGlobal(st *State, in ssa.Instruction, g *ssa.Global, path []int, v Val) {
	if x.initMode {
		if x.initWritten == nil {
			x.initWritten = map[*ssa.Global]bool{}
		}
		x.initWritten[g] = true
		x.initLast = st
		t := g.Type().Underlying().(*types.Pointer).Elem()
		ck := globalCellKey(g)
		cur, ok := st.cells[ck]
		if !ok {
			cur = x.e.zeroVal(t)
		}
		st.cells[ck] = setPath(cur, path, v)
		return
	}
	if !x.e.mutableGlobals[g] {
		x.fail("store to global %s that was classified immutable", g.Name())
	}
	if x.hasAssign && !x.lemma {
		x.safety(st, in, "assigns", Bool(x.globalAssignable(g)), "package-level variable "+g.Name()+" is in the assigns clause")
	}
	t := g.Type().Underlying().(*types.Pointer).Elem()
	ck := globalCellKey(g)
	cur := x.e.globalVal(st, g, t)
	st.cells[ck] = setPath(cur, path, v)
}

func (x *Exec) globalAssignable(g *ssa.Global) bool {
	for _, c := range x.spec.Assigns {
		if id, ok := c.E.(EIdent); ok && id.Name == g.Name() {
			return true
		}
	}
	return false
}

// ---------------------------------------------------------------------------------
// loops

type loopHdr struct {
	block *ssa.BasicBlock
	ord   int
	body  map[*ssa.BasicBlock]bool
}

type loopInfo struct {
	headers map[*ssa.BasicBlock]*loopHdr
	back    map[[2]int]bool
}

func (li *loopInfo) isBack(from, to *ssa.BasicBlock) bool { return li.back[[2]int{from.Index, to.Index}] }

func (e *Engine) loops(fn *ssa.Function) *loopInfo {
	e.mu.Lock()
	defer e.mu.Unlock()
	if li, ok := e.loopInfo[fn]; ok {
		return li
	}
	li := &loopInfo{headers: map[*ssa.BasicBlock]*loopHdr{}, back: map[[2]int]bool{}}
	for _, b := range fn.Blocks {
		for _, s := range b.Succs {
			if s.Dominates(b) {
				li.back[[2]int{b.Index, s.Index}] = true
				h := li.headers[s]
				if h == nil {
					h = &loopHdr{block: s, body: map[*ssa.BasicBlock]bool{s: true}}
					li.headers[s] = h
				}
				// natural loop body: nodes reaching b without passing s
				var stack []*ssa.BasicBlock
				if !h.body[b] {
					h.body[b] = true
					stack = append(stack, b)
				}
				for len(stack) > 0 {
					n := stack[len(stack)-1]
					stack = stack[:len(stack)-1]
					for _, p := range n.Preds {
						if !h.body[p] {
							h.body[p] = true
							stack = append(stack, p)
						}
					}
				}
			}
		}
	}
	var hs []*loopHdr
	for _, h := range li.headers {
		hs = append(hs, h)
	}
	posOf := func(h *loopHdr) token.Pos {
		// the loop's position: smallest position of any instruction in the body
		best := token.NoPos
		for b := range h.body {
			for _, in := range b.Instrs {
				if p := in.Pos(); p.IsValid() && (best == token.NoPos || p < best) {
					best = p
				}
			}
		}
		return best
	}
	sort.Slice(hs, func(i, j int) bool {
		pi, pj := posOf(hs[i]), posOf(hs[j])
		if pi != pj {
			return pi < pj
		}
		return hs[i].block.Index < hs[j].block.Index
	})
	for i, h := range hs {
		h.ord = i + 1
	}
	e.loopInfo[fn] = li
	return li
}

func (e *Engine) hasLoops(fn *ssa.Function) bool { return len(e.loops(fn).headers) > 0 }

// cellsStoredIn finds local cells assigned within a set of blocks
func cellsStoredIn(body map[*ssa.BasicBlock]bool) map[*ssa.Alloc]bool {
	out := map[*ssa.Alloc]bool{}
	var root func(v ssa.Value) *ssa.Alloc
	root = func(v ssa.Value) *ssa.Alloc {
		switch a := v.(type) {
		case *ssa.Alloc:
			return a
		case *ssa.FieldAddr:
			return root(a.X)
		case *ssa.IndexAddr:
			return root(a.X)
		}
		return nil
	}
	for b := range body {
		for _, in := range b.Instrs {
			if s, ok := in.(*ssa.Store); ok {
				if a := root(s.Addr); a != nil && !a.Heap {
					out[a] = true
				}
			}
		}
	}
	return out
}

func (x *Exec) loopSpec(fr *Frame, h *loopHdr) *LoopSpec {
	var spec *FuncSpec
	if fr.parent == nil {
		spec = x.spec
	} else {
		spec = x.e.specFor(fr.fn)
	}
	if spec == nil {
		return nil
	}
	return spec.Loops[h.ord]
}

func (x *Exec) loopEnter(st *State, fr *Frame, h *loopHdr) bool {
	e := x.e
	ls := x.loopSpec(fr, h)
	if ls != nil && ls.Never {
		// the body is claimed unreachable: nothing is havocked; reaching the back edge is an obligation
		return true
	}
	env := x.envAt(st, fr)
	base := fmt.Sprintf("%s/loop%d", x.qname, h.ord)
	if fr.parent != nil {
		base = fmt.Sprintf("%s/loop%d@%s", x.qname, h.ord, e.qualName(fr.fn))
	}
	if ls != nil {
		for _, c := range ls.Inv {
			if !x.wantClause(c) || !x.active(c) {
				continue
			}
			g := x.evalBool(st, env, c)
			if c.group() == "" && !x.primary {
				st.assume(g)
				continue
			}
			x.oblige(st, fmt.Sprintf("%s/inv-entry#%d", base, c.Ord), "inv-entry", g, c.Text, fmt.Sprintf("%s:%d", c.File, c.Line), c.Tags)
		}
	}
	// havoc: cells assigned in the loop body that exist already
	stored := cellsStoredIn(h.body)
	var names []string
	var storedList []*ssa.Alloc
	for a := range stored {
		storedList = append(storedList, a)
	}
	sort.Slice(storedList, func(i, j int) bool {
		if storedList[i].Pos() != storedList[j].Pos() {
			return storedList[i].Pos() < storedList[j].Pos()
		}
		return storedList[i].Name() < storedList[j].Name()
	})
	for _, a := range storedList {
		ck := cellKey{A: a, Frame: fr.id}
		if _, ok := st.cells[ck]; ok {
			t := a.Type().Underlying().(*types.Pointer).Elem()
			nv := x.freshVal(st, t, "h_"+a.Comment)
			st.cells[ck] = nv
			if a.Comment == "rangeindex" {
				// the hidden index of a range loop: starts at -1 and only counts up to the length
				if sv, ok := nv.(VScalar); ok {
					st.assume(And(e.ar.Cmp(token.LEQ, tInt, e.ar.IConst(-1), sv.T), e.ar.Cmp(token.LEQ, tInt, sv.T, e.ar.Const(tInt, bigPow2(47)))))
				}
			}
			names = append(names, a.Comment)
		}
	}
	x.loopHavocHeap(st, fr, h)
	env = x.envAt(st, fr)
	if ls != nil {
		for _, c := range ls.Inv {
			if x.active(c) {
				st.assume(x.evalBool(st, env, c))
			}
		}
	}
	snap := &loopSnap{heap: copyHeap(st.heap)}
	if ls != nil && ls.Dec != nil {
		snap.measure = x.evalTerm(st, env, ls.Dec)
	}
	fr.loops[h.block] = snap
	_ = names
	return true
}

func copyHeap(h map[string]*Term) map[string]*Term {
	n := make(map[string]*Term, len(h))
	for k, v := range h {
		n[k] = v
	}
	return n
}

func (x *Exec) loopBack(st *State, fr *Frame, h *loopHdr) {
	e := x.e
	ls := x.loopSpec(fr, h)
	if ls == nil {
		return
	}
	if ls.Never {
		x.oblige(st, fmt.Sprintf("%s/loop%d/never", x.qname, h.ord), "inv-step", False, "the loop never iterates (declared `never`)", x.posOf(nil), nil)
		st.dead = true
		return
	}
	env := x.envAt(st, fr)
	base := fmt.Sprintf("%s/loop%d", x.qname, h.ord)
	if fr.parent != nil {
		base = fmt.Sprintf("%s/loop%d@%s", x.qname, h.ord, e.qualName(fr.fn))
	}
	for _, c := range ls.Inv {
		if !x.wantClause(c) || !x.active(c) {
			continue
		}
		g := x.evalBool(st, env, c)
		if c.group() == "" && !x.primary {
			st.assume(g)
			continue
		}
		x.oblige(st, fmt.Sprintf("%s/inv-step#%d", base, c.Ord), "inv-step", g, c.Text, fmt.Sprintf("%s:%d", c.File, c.Line), c.Tags)
	}
	if ls.Dec != nil && x.primary {
		snap := fr.loops[h.block]
		if snap != nil && snap.measure != nil {
			m := x.evalTerm(st, env, ls.Dec)
			z := ConstI(m.S, 0)
			var g *Term
			if m.S.K == SBV {
				g = And(BVCmp("bvsle", z, snap.measure), BVCmp("bvslt", m, snap.measure))
			} else {
				g = And(IntCmp("<=", z, snap.measure), IntCmp("<", m, snap.measure))
			}
			x.oblige(st, base+"/decreases", "decreases", g, ls.Dec.Text, fmt.Sprintf("%s:%d", ls.Dec.File, ls.Dec.Line), ls.Dec.Tags)
		}
	}
}

func (x *Exec) wantClause(c *Clause) bool {
	if x.prop == "" {
		return true
	}
	return c.hasTag(x.prop)
}

// splitGoal: conjunctions, and implications with a conjunctive consequent, become separate goals
func splitGoal(g *Term) []*Term {
	switch g.Op {
	case "and":
		var out []*Term
		for _, a := range g.Args {
			out = append(out, splitGoal(a)...)
		}
		return out
	case "=>":
		cs := splitGoal(g.Args[1])
		if len(cs) <= 1 {
			return []*Term{g}
		}
		var out []*Term
		for _, c := range cs {
			out = append(out, Implies(g.Args[0], c))
		}
		return out
	}
	return []*Term{g}
}

// tagImplements: does the dynamic type with this tag implement the interface? Pseudo types
// registered by name (errors.errorString, fmt's error types) have a known small method set.
func (e *Engine) tagImplements(id int, it *types.Interface) bool {
	if t := e.tagTypes[id-1]; t != nil {
		return types.Implements(t, it)
	}
	name := ""
	for n, i := range e.typeTags {
		if i == id {
			name = n
		}
	}
	have := map[string]bool{"Error": true}
	if name == "*fmt.wrapError" {
		have["Unwrap"] = true
	}
	for i := 0; i < it.NumMethods(); i++ {
		if !have[it.Method(i).Name()] {
			return false
		}
	}
	return true
}
