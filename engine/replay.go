package main

// Counterexample replay: a solver model of a failed obligation is turned into an
// in-package Go test (injected with `go test -overlay`, nothing is written into the
// repository) that calls the real function and re-evaluates the violated clause.

import (
	"context"
	"encoding/json"
	"fmt"
	"go/constant"
	"go/types"
	"math/big"
	"os"
	"os/exec"
	"path/filepath"
	"regexp"
	"strconv"
	"strings"
	"time"

	"golang.org/x/tools/go/ssa"
)

type replayParam struct {
	Name string
	T    types.Type
	V    Val
}

type ReplayInfo struct {
	Fn     *ssa.Function
	Spec   *FuncSpec
	Params []replayParam
	Globals map[string]Val // mutable package-level variables read by the function: name -> entry value
	GlobalT map[string]types.Type
}

type ReplayResult struct {
	Attempted  bool
	Reproduced bool
	Test       string
	Output     string
	Inputs     map[string]string
	Why        string
}

const maxReplayLen = 256

// replay tries to reproduce a failed obligation on the real code.
func (e *Engine) replay(ob *Obligation, timeout time.Duration) *ReplayResult {
	res := &ReplayResult{}
	ri := ob.Replay
	if ri == nil || ob.SMT == "" {
		res.Why = "no replay information for this kind of obligation"
		return res
	}
	if strings.Contains(ob.Path, "L") {
		res.Why = "the failing path starts at a loop head (state after havoc is not an input)"
	}
	// 1. small model
	var askScalars []*Term
	var small []string
	I := (&Arith{Mode: ob.Mode}).I()
	mkc := func(v int64) string { return ConstI(I, v).Key() }
	le := func(a *Term, v int64) string {
		if ob.Mode == ModeBV {
			return fmt.Sprintf("(bvsle %s %s)", a.Key(), mkc(v))
		}
		return fmt.Sprintf("(<= %s %s)", a.Key(), mkc(v))
	}
	type bytesReq struct {
		arr, off *Term
	}
	var breqs []bytesReq
	var collect func(t types.Type, v Val)
	collect = func(t types.Type, v Val) {
		switch u := v.(type) {
		case VScalar:
			askScalars = append(askScalars, u.T)
		case VSlice:
			askScalars = append(askScalars, u.Len, u.Cap, u.Reg)
			small = append(small, le(u.Len, maxReplayLen), le(u.Cap, 2*maxReplayLen))
			if isByteSlice(t) {
				m := heapInit(memName(byteType, ""), ArraySort(I, ArraySort(I, (&Arith{Mode: ob.Mode}).ByteSort())))
				breqs = append(breqs, bytesReq{Select(m, u.Reg), u.Off})
			}
		case VString:
			askScalars = append(askScalars, u.Len)
			small = append(small, le(u.Len, maxReplayLen))
			breqs = append(breqs, bytesReq{u.Arr, u.Off})
		case VIface:
			askScalars = append(askScalars, u.Tag)
		case VRef:
			askScalars = append(askScalars, u.T)
		case VStruct:
			st := t.Underlying().(*types.Struct)
			for i, f := range u.F {
				collect(st.Field(i).Type(), f)
			}
		}
	}
	for _, p := range ri.Params {
		collect(p.T, p.V)
	}
	var gnames []string
	for n := range ri.Globals {
		gnames = append(gnames, n)
	}
	for _, n := range gnames {
		collect(ri.GlobalT[n], ri.Globals[n])
	}
	data, err := os.ReadFile(ob.SMT)
	if err != nil {
		res.Why = err.Error()
		return res
	}
	base := strings.TrimSuffix(string(data), "(check-sat)\n")
	declared := map[string]bool{}
	for _, m := range regexp.MustCompile(`\(declare-fun (\S+) `).FindAllStringSubmatch(base, -1) {
		declared[m[1]] = true
	}
	// only ask for terms whose symbols are declared in the query (others are unconstrained)
	usable := func(t *Term) bool {
		ok := true
		Walk(t, map[*Term]bool{}, func(x *Term) {
			if (x.Op == "var" || x.Op == "app") && !declared[x.Name] {
				ok = false
			}
		})
		return ok
	}
	var extraDecl strings.Builder
	declareMissing := func(t *Term) {
		for _, s := range collectSyms([]*Term{t}) {
			if !declared[s.name] {
				declared[s.name] = true
				if len(s.dom) == 0 {
					fmt.Fprintf(&extraDecl, "(declare-fun %s () %s)\n", s.name, s.rng)
				} else {
					var ds []string
					for _, d := range s.dom {
						ds = append(ds, d.String())
					}
					fmt.Fprintf(&extraDecl, "(declare-fun %s (%s) %s)\n", s.name, strings.Join(ds, " "), s.rng)
				}
			}
		}
	}
	_ = usable
	var gv []string
	for _, t := range askScalars {
		declareMissing(t)
		gv = append(gv, t.Key())
	}
	var byteTerms [][]*Term
	ar := &Arith{Mode: ob.Mode}
	for _, b := range breqs {
		var row []*Term
		for i := 0; i < maxReplayLen; i++ {
			t := Select(b.arr, ar.Bin(tokADD, tInt, b.off, ar.IConst(int64(i))))
			declareMissing(t)
			row = append(row, t)
			gv = append(gv, t.Key())
		}
		byteTerms = append(byteTerms, row)
	}
	st, out := "", ""
	for _, lim := range []int{8, 32, maxReplayLen} {
		var q strings.Builder
		q.WriteString(strings.Replace(base, "(set-logic ALL)\n", "(set-logic ALL)\n"+extraDecl.String(), 1))
		for _, s := range small {
			fmt.Fprintf(&q, "(assert %s)\n", strings.ReplaceAll(s, mkc(maxReplayLen), mkc(int64(lim))))
		}
		q.WriteString("(check-sat)\n")
		fmt.Fprintf(&q, "(get-value (%s))\n", strings.Join(gv, " "))
		mf := strings.TrimSuffix(ob.SMT, ".smt2") + ".replay.smt2"
		if err := os.WriteFile(mf, []byte(q.String()), 0o644); err != nil {
			res.Why = err.Error()
			return res
		}
		st, out, _ = runSolver(context.Background(), solvers[0], mf, timeout)
		if st == "sat" {
			break
		}
	}
	if st != "sat" {
		res.Why = "no small model (len <= 256) found: solver said " + st
		return res
	}
	vals := parseGetValue(out)
	if len(vals) < len(gv) {
		res.Why = fmt.Sprintf("could not parse the model (%d of %d values)", len(vals), len(gv))
		return res
	}
	model := map[string]*big.Int{}
	for i, k := range gv {
		model[k] = vals[i]
	}
	res.Attempted = true
	// 2. test source
	bi := 0
	inputs := map[string]string{}
	var lit func(t types.Type, v Val) (string, bool)
	sval := func(t *Term, n NumT) *big.Int {
		v := model[t.Key()]
		if v == nil {
			return big.NewInt(0)
		}
		if ob.Mode == ModeBV && n.Signed && v.Bit(n.Bits-1) == 1 {
			v = new(big.Int).Sub(v, bigPow2(uint(n.Bits)))
		}
		return v
	}
	qual := func(t types.Type) string {
		return types.TypeString(t, func(p *types.Package) string {
			if p == ri.Fn.Pkg.Pkg {
				return ""
			}
			return p.Name()
		})
	}
	lit = func(t types.Type, v Val) (string, bool) {
		switch u := v.(type) {
		case VScalar:
			if isBool(t) {
				if model[u.T.Key()] != nil && model[u.T.Key()].Sign() != 0 {
					return "true", true
				}
				return "false", true
			}
			n, ok := numOf(t)
			if !ok {
				return "", false
			}
			if n.Float {
				return fmt.Sprintf("math.Float64frombits(0x%x)", sval(u.T, NumT{64, false, false})), true
			}
			return fmt.Sprintf("%s(%s)", qual(t), sval(u.T, n).String()), true
		case VSlice:
			if !isByteSlice(t) {
				return "", false
			}
			ln := int(sval(u.Len, tInt).Int64())
			cp := int(sval(u.Cap, tInt).Int64())
			reg := sval(u.Reg, tInt)
			row := byteTerms[bi]
			bi++
			if reg.Sign() == 0 {
				return "[]byte(nil)", true
			}
			var bs []string
			for i := 0; i < ln && i < len(row); i++ {
				bs = append(bs, fmt.Sprintf("0x%02x", model[row[i].Key()].Int64()&0xff))
			}
			return fmt.Sprintf("func() []byte { b := make([]byte, %d, %d); copy(b, []byte{%s}); return b }()", ln, max(cp, ln), strings.Join(bs, ",")), true
		case VString:
			ln := int(sval(u.Len, tInt).Int64())
			row := byteTerms[bi]
			bi++
			var sb strings.Builder
			for i := 0; i < ln && i < len(row); i++ {
				fmt.Fprintf(&sb, "\\x%02x", model[row[i].Key()].Int64()&0xff)
			}
			return fmt.Sprintf("%s(\"%s\")", qual(t), sb.String()), true
		case VIface:
			if model[u.Tag.Key()] == nil || model[u.Tag.Key()].Sign() == 0 {
				return "nil", true
			}
			return "", false
		case VStruct:
			st, ok := t.Underlying().(*types.Struct)
			if ok && st.NumFields() == 0 {
				return qual(t) + "{}", true
			}
			return "", false
		}
		return "", false
	}
	fn := ri.Fn
	var args []string
	for i, p := range ri.Params {
		l, ok := lit(p.T, p.V)
		if !ok {
			res.Attempted = false
			res.Why = fmt.Sprintf("cannot build a concrete value of type %s for parameter %s", p.T, p.Name)
			return res
		}
		inputs[p.Name] = l
		_ = i
		args = append(args, l)
	}
	var setup strings.Builder
	for _, n := range gnames {
		l, ok := lit(ri.GlobalT[n], ri.Globals[n])
		if ok {
			fmt.Fprintf(&setup, "\t%s = %s\n", n, l)
			inputs[n] = l
		}
	}
	res.Inputs = inputs
	sig := fn.Signature
	var decl strings.Builder
	var argNames []string
	for i, p := range ri.Params {
		fmt.Fprintf(&decl, "\t%s := %s\n\t_ = %s\n", p.Name, args[i], p.Name)
		argNames = append(argNames, p.Name)
	}
	callee := fn.Name()
	callArgs := argNames
	if sig.Recv() != nil {
		callee = argNames[0] + "." + fn.Name()
		callArgs = argNames[1:]
	}
	rnames := resultNames(ri.Spec, sig)
	lhs := ""
	if len(rnames) > 0 {
		lhs = strings.Join(rnames, ", ") + " := "
	}
	g := &goPrinter{e: e, spec: ri.Spec, pkg: fn.Pkg.Pkg, old: map[string]string{}}
	var snaps strings.Builder
	for _, p := range ri.Params {
		if isByteSlice(p.T) {
			fmt.Fprintf(&snaps, "\told_%s := append([]byte(nil), %s...)\n\t_ = old_%s\n", p.Name, p.Name, p.Name)
			g.old[p.Name] = "old_" + p.Name
		}
	}
	check := "true"
	var lets strings.Builder
	okClause := true
	if ob.Clause != nil {
		for _, l := range ri.Spec.Lets {
			s, ok := g.try(l.E)
			if !ok {
				okClause = false
				break
			}
			fmt.Fprintf(&lets, "\t%s := %s\n\t_ = %s\n", l.Name, s, l.Name)
		}
		s, ok := g.try(ob.Clause.E)
		if !ok {
			okClause = false
		}
		check = s
	}
	if !okClause {
		res.Attempted = false
		res.Why = "the violated clause uses constructs with no executable reading: " + g.why
		return res
	}
	var useResults strings.Builder
	for _, r := range rnames {
		fmt.Fprintf(&useResults, "\t_ = %s\n", r)
	}
	imports := "import (\n\t\"testing\"\n"
	body := decl.String() + snaps.String() + lets.String()
	if strings.Contains(body+check, "math.") && fn.Pkg.Pkg.Name() != "math" {
		imports += "\t\"math\"\n"
	}
	if strings.Contains(body+check, "vs.") {
		imports += "\tvs \"" + specPkgPath + "\"\n"
	}
	imports += ")\n"
	src := fmt.Sprintf(`//go:build verif

package %s

%s
func TestVerifReplay(t *testing.T) {
%s%s	defer func() {
		if r := recover(); r != nil {
			t.Fatalf("VERIF-REPLAY-PANIC: %%v", r)
		}
	}()
	%s%s(%s)
%s	if !(%s) {
		t.Fatalf("VERIF-REPLAY-FAIL: clause violated on the real code")
	}
}
`, fn.Pkg.Pkg.Name(), imports, setup.String(), body, lhs, callee, strings.Join(callArgs, ", "), useResults.String(), check)
	res.Test = src
	// 3. run
	pkgDir := ""
	if tp := e.tpkgs[fn.Pkg.Pkg.Path()]; tp != nil && len(tp.GoFiles) > 0 {
		pkgDir = filepath.Dir(tp.GoFiles[0])
	}
	if pkgDir == "" {
		res.Why = "package directory unknown"
		return res
	}
	tmp, err := os.MkdirTemp("", "govc-replay-")
	if err != nil {
		res.Why = err.Error()
		return res
	}
	defer os.RemoveAll(tmp)
	tf := filepath.Join(tmp, "replay_test.go")
	os.WriteFile(tf, []byte(src), 0o644)
	ov, _ := json.Marshal(map[string]interface{}{"Replace": map[string]string{filepath.Join(pkgDir, "zz_verif_replay_test.go"): tf}})
	ovf := filepath.Join(tmp, "overlay.json")
	os.WriteFile(ovf, ov, 0o644)
	ctx, cancel := context.WithTimeout(context.Background(), 120*time.Second)
	defer cancel()
	cmd := exec.CommandContext(ctx, "bash", "-c", fmt.Sprintf("ulimit -v 8000000; cd %q && go test -tags verif -overlay %q -vet=off -count=1 -timeout 60s -run '^TestVerifReplay$' .", pkgDir, ovf))
	cmd.Env = append(os.Environ(), "GOFLAGS=-mod=mod", "GOPROXY=off", "GOSUMDB=off", "GOTOOLCHAIN=local")
	outb, _ := cmd.CombinedOutput()
	res.Output = string(outb)
	if len(res.Output) > 6000 {
		res.Output = res.Output[:6000]
	}
	if strings.Contains(res.Output, "VERIF-REPLAY-FAIL") || strings.Contains(res.Output, "VERIF-REPLAY-PANIC") {
		res.Reproduced = true
	} else if strings.Contains(res.Output, "ok  ") {
		res.Why = "the model's input does not violate the clause on the real code (spurious model or abstraction)"
	} else {
		res.Why = "replay test did not build or run"
	}
	return res
}

func parseGetValue(out string) []*big.Int {
	i := strings.Index(out, "((")
	if i < 0 {
		return nil
	}
	s := out[i:]
	var vals []*big.Int
	// entries look like (term value); value is #x.., #b.., integer, (- n), true/false
	depth := 0
	start := -1
	for k := 0; k < len(s); k++ {
		switch s[k] {
		case '(':
			depth++
			if depth == 2 {
				start = k
			}
		case ')':
			if depth == 2 && start >= 0 {
				entry := s[start+1 : k]
				vals = append(vals, parseValueTail(entry))
				start = -1
			}
			depth--
			if depth == 0 {
				return vals
			}
		}
	}
	return vals
}

func parseValueTail(entry string) *big.Int {
	entry = strings.TrimSpace(entry)
	// value is the last token or the last parenthesised (- n)
	if strings.HasSuffix(entry, ")") {
		j := strings.LastIndex(entry, "(")
		inner := strings.TrimSpace(entry[j+1 : len(entry)-1])
		if strings.HasPrefix(inner, "-") {
			v, ok := new(big.Int).SetString(strings.TrimSpace(inner[1:]), 10)
			if ok {
				return v.Neg(v)
			}
		}
		return big.NewInt(0)
	}
	j := strings.LastIndexAny(entry, " \t\n")
	tok := entry[j+1:]
	switch {
	case strings.HasPrefix(tok, "#x"):
		v, _ := new(big.Int).SetString(tok[2:], 16)
		return v
	case strings.HasPrefix(tok, "#b"):
		v, _ := new(big.Int).SetString(tok[2:], 2)
		return v
	case tok == "true":
		return big.NewInt(1)
	case tok == "false":
		return big.NewInt(0)
	}
	if v, ok := new(big.Int).SetString(tok, 10); ok {
		return v
	}
	return big.NewInt(0)
}

// ---- contract expressions as Go source (runtime assertion checking) ----

type goPrinter struct {
	e     *Engine
	spec  *FuncSpec
	pkg   *types.Package
	old   map[string]string
	inOld bool
	why   string
	bound map[string]bool
}

type racErr string

func (g *goPrinter) try(ex Expr) (s string, ok bool) {
	defer func() {
		if r := recover(); r != nil {
			if re, is := r.(racErr); is {
				g.why = string(re)
				ok = false
				return
			}
			panic(r)
		}
	}()
	return g.expr(ex), true
}

func (g *goPrinter) fail(f string, a ...interface{}) { panic(racErr(fmt.Sprintf(f, a...))) }

func (g *goPrinter) pred(name string) *Pred {
	if ps := g.e.specs[g.pkg.Path()]; ps != nil {
		if p := ps.Preds[name]; p != nil {
			return p
		}
	}
	for _, ps := range g.e.specs {
		if p := ps.Preds[name]; p != nil {
			return p
		}
	}
	return nil
}

func (g *goPrinter) expr(ex Expr) string {
	switch v := ex.(type) {
	case EIdent:
		if g.inOld {
			if o, ok := g.old[v.Name]; ok {
				return o
			}
		}
		return v.Name
	case ELit:
		if v.V.Kind() == constant.String {
			return strconv.Quote(constant.StringVal(v.V))
		}
		return v.V.ExactString()
	case ESel:
		return g.expr(v.X) + "." + v.Sel
	case EIndex:
		return g.expr(v.X) + "[" + g.expr(v.I) + "]"
	case ESlice:
		lo, hi := "", ""
		if v.Lo != nil {
			lo = g.expr(v.Lo)
		}
		if v.Hi != nil {
			hi = g.expr(v.Hi)
		}
		return g.expr(v.X) + "[" + lo + ":" + hi + "]"
	case EUnary:
		return "(" + v.Op + g.expr(v.X) + ")"
	case EBinary:
		switch v.Op {
		case "==>":
			return "(!(" + g.expr(v.X) + ") || (" + g.expr(v.Y) + "))"
		case "<==>":
			return "((" + g.expr(v.X) + ") == (" + g.expr(v.Y) + "))"
		}
		return "(" + g.expr(v.X) + " " + v.Op + " " + g.expr(v.Y) + ")"
	case ECond:
		return "func() interface{} { if " + g.expr(v.C) + " { return " + g.expr(v.A) + " }; return " + g.expr(v.B) + " }()"
	case EQuant:
		// only bounded integer quantification lo <= k && k < hi ==> body
		if len(v.Vars) != 1 {
			g.fail("multi-variable quantifier")
		}
		imp, ok := v.Body.(EBinary)
		if !ok || imp.Op != "==>" {
			g.fail("unbounded quantifier")
		}
		rng, ok := imp.X.(EBinary)
		if !ok || rng.Op != "&&" {
			g.fail("unbounded quantifier")
		}
		lo, ok1 := rng.X.(EBinary)
		hi, ok2 := rng.Y.(EBinary)
		if !ok1 || !ok2 || lo.Op != "<=" || hi.Op != "<" {
			g.fail("unbounded quantifier")
		}
		k := v.Vars[0].Name
		all := "true"
		if !v.Forall {
			g.fail("existential quantifier")
		}
		return fmt.Sprintf("func() bool { for %s := %s(%s); %s < %s(%s); %s++ { if !(%s) { return false } }; return %s }()", k, v.Vars[0].Type, g.expr(lo.X), k, v.Vars[0].Type, g.expr(hi.Y), k, g.expr(imp.Y), all)
	case ECall:
		if id, ok := v.Fun.(EIdent); ok {
			switch id.Name {
			case "old":
				prev := g.inOld
				g.inOld = true
				s := g.expr(v.Args[0])
				g.inOld = prev
				return s
			case "len", "cap":
				return id.Name + "(" + g.expr(v.Args[0]) + ")"
			case "snap":
				return g.expr(v.Args[0])
			case "isnil":
				return "(" + g.expr(v.Args[0]) + " == nil)"
			case "eqbytes":
				var as []string
				for _, a := range v.Args {
					as = append(as, g.expr(a))
				}
				return "vs.EqBytes(" + strings.Join(as, ", ") + ")"
			case "fresh", "allocated", "region", "offset", "rsize", "avail", "same", "istype", "astype", "typeid", "bytesat", "maplen":
				g.fail("builtin %s has no executable reading", id.Name)
			}
			if p := g.pred(id.Name); p != nil {
				// macro expansion by textual substitution of arguments
				sub := &goPrinter{e: g.e, spec: g.spec, pkg: g.pkg, old: g.old, inOld: g.inOld}
				m := map[string]Expr{}
				for i, prm := range p.Params {
					m[prm.Name] = v.Args[i]
				}
				return sub.expr(substExpr(p.Body, m))
			}
		}
		var as []string
		for _, a := range v.Args {
			as = append(as, g.expr(a))
		}
		return g.expr(v.Fun) + "(" + strings.Join(as, ", ") + ")"
	}
	g.fail("unsupported expression")
	return ""
}

func substExpr(ex Expr, m map[string]Expr) Expr {
	switch v := ex.(type) {
	case EIdent:
		if r, ok := m[v.Name]; ok {
			return r
		}
		return v
	case ESel:
		return ESel{substExpr(v.X, m), v.Sel}
	case ECall:
		var as []Expr
		for _, a := range v.Args {
			as = append(as, substExpr(a, m))
		}
		return ECall{substExpr(v.Fun, m), as}
	case EIndex:
		return EIndex{substExpr(v.X, m), substExpr(v.I, m)}
	case ESlice:
		r := ESlice{X: substExpr(v.X, m)}
		if v.Lo != nil {
			r.Lo = substExpr(v.Lo, m)
		}
		if v.Hi != nil {
			r.Hi = substExpr(v.Hi, m)
		}
		return r
	case EUnary:
		return EUnary{v.Op, substExpr(v.X, m)}
	case EBinary:
		return EBinary{v.Op, substExpr(v.X, m), substExpr(v.Y, m)}
	case ECond:
		return ECond{substExpr(v.C, m), substExpr(v.A, m), substExpr(v.B, m)}
	case EQuant:
		m2 := map[string]Expr{}
		for k, x := range m {
			m2[k] = x
		}
		for _, q := range v.Vars {
			delete(m2, q.Name)
		}
		return EQuant{v.Forall, v.Vars, substExpr(v.Body, m2)}
	}
	return ex
}
