package main

import (
	"math"
	"go/token"
	"math/big"
)

const (
	tokADD = token.ADD
	tokSUB = token.SUB
	tokMUL = token.MUL
	tokLEQ = token.LEQ
	tokLSS = token.LSS
	tokGEQ = token.GEQ
	tokGTR = token.GTR
	tokEQL = token.EQL
	tokNEQ = token.NEQ
)

func bigPow2(n uint) *big.Int { return new(big.Int).Lsh(big.NewInt(1), n) }

func containsStr(xs []string, s string) bool {
	for _, x := range xs {
		if x == s {
			return true
		}
	}
	return false
}

func mathFloat64bits(f float64) uint64 { return math.Float64bits(f) }
func mathFloat32bits(f float32) uint32 { return math.Float32bits(f) }
