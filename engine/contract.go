package main

// Contract files: `//@` comment lines in files guarded by `//go:build verif`.

import (
	"fmt"
	"os"
	"path/filepath"
	"regexp"
	"sort"
	"strconv"
	"strings"
)

type Clause struct {
	Kind string
	Tags []string
	E    Expr
	Text string
	File string
	Line int
	Ord  int
}

func (c *Clause) hasTag(p string) bool {
	n := 0
	for _, t := range c.Tags {
		if strings.HasPrefix(t, "g:") || t == "trusted" || t == "ghostdef" {
			continue
		}
		n++
		if t == p {
			return true
		}
	}
	return n == 0
}

// trusted: the clause is assumed at call sites but not proved against the body (listed as an assumption)
func (c *Clause) trusted() bool {
	for _, t := range c.Tags {
		if t == "trusted" {
			return true
		}
	}
	return false
}

// group: clauses tagged [g:name] are verified in a separate pass together with the untagged ones
func (c *Clause) group() string {
	for _, t := range c.Tags {
		if strings.HasPrefix(t, "g:") {
			return t[2:]
		}
	}
	return ""
}

func (s *FuncSpec) groups() []string {
	seen := map[string]bool{}
	var out []string
	add := func(c *Clause) {
		if g := c.group(); g != "" && !seen[g] {
			seen[g] = true
			out = append(out, g)
		}
	}
	for _, c := range s.Requires {
		add(c)
	}
	for _, c := range s.Ensures {
		add(c)
	}
	for _, c := range s.Hints {
		add(c)
	}
	var ks []int
	for k := range s.Loops {
		ks = append(ks, k)
	}
	sort.Ints(ks)
	for _, k := range ks {
		for _, c := range s.Loops[k].Inv {
			add(c)
		}
	}
	return out
}

type LoopSpec struct {
	Inv   []*Clause
	Dec   *Clause
	Never bool // `loop N never`: the loop body is unreachable (obligation); no havoc, no invariant
}

type LetDef struct {
	Name string
	E    Expr
	Text string
}

type FuncSpec struct {
	Kind      string // func | iface | extern
	Pkg       string // import path of the package whose contract file declares it
	Key       string
	Arith     Mode
	ArithSet  bool
	Requires  []*Clause
	Ensures   []*Clause
	Assigns   []*Clause // each E is an assignable location expression; nil E = \nothing
	HasAssign bool
	Decreases *Clause
	Loops     map[int]*LoopSpec
	Lets      []LetDef
	Trusted   bool
	NilRecv   bool // the method is specified for a nil receiver too
	Refines   []string // interface methods ("Iface.Method") whose contract this method must satisfy
	Impls     []Expr   // iface contracts: implementations dispatched by case analysis at call sites
	Inline    bool
	Pure      bool
	Props     []string
	Hints     []*Clause
	Asserts   map[string][]*Clause
	File      string
	Line      int
	Params    []string // for iface/extern: parameter names as declared in the header
	Results   []string
}

type Pred struct {
	Name   string
	Params []QVar
	Body   Expr
	Text   string
}

type PkgSpec struct {
	Path    string
	Globals []*Clause
	Preds   map[string]*Pred
	Funcs   map[string]*FuncSpec // by Key
	Ifaces  map[string]*FuncSpec // "Iface.Method"
	Externs map[string]*FuncSpec // "pkgpath.Func" or "pkgpath.Type.Method"
	Ghosts  map[string]string    // ghost field name ("$x") -> Go type text
	Models  map[string]*Clause   // "Type.$x" -> defining expression over `self` (abstraction function)
	Constraints map[string]*Clause // "Type" -> two-state history constraint kept by every method that refines an interface contract
	Files   []string
}

var clauseRe = regexp.MustCompile(`^(requires|ensures|invariant|decreases|assigns|hint|assert)(\[[A-Za-z0-9:, ]+\])?\s+(.*)$`)

type rawLine struct {
	text string
	file string
	line int
}

func parseContractFile(path string, pkgPath string, ps *PkgSpec) error {
	data, err := os.ReadFile(path)
	if err != nil {
		return err
	}
	var lines []rawLine
	for i, l := range strings.Split(string(data), "\n") {
		t := strings.TrimSpace(l)
		if !strings.HasPrefix(t, "//@") {
			continue
		}
		t = strings.TrimSpace(t[3:])
		if t == "" {
			continue
		}
		// strip trailing line comment ` // ...`
		if k := strings.Index(t, " // "); k >= 0 {
			t = strings.TrimSpace(t[:k])
		}
		lines = append(lines, rawLine{t, path, i + 1})
	}
	// merge continuation lines
	kw := regexp.MustCompile(`^(func|iface|extern|global|ghost|model|constraint|pred|arith|requires|ensures|assigns|decreases|loop|let|trusted|nilrecv|refines|impl|inline|pure|props|hint|assert|params|results)\b`)
	var merged []rawLine
	for _, l := range lines {
		if !kw.MatchString(l.text) && len(merged) > 0 {
			merged[len(merged)-1].text += " " + l.text
			continue
		}
		merged = append(merged, l)
	}
	var cur *FuncSpec
	fail := func(l rawLine, f string, a ...interface{}) error {
		return fmt.Errorf("%s:%d: %s", l.file, l.line, fmt.Sprintf(f, a...))
	}
	mkClause := func(l rawLine, kind, tags, text string) (*Clause, error) {
		c := &Clause{Kind: kind, Text: text, File: filepath.Base(l.file), Line: l.line}
		if tags != "" {
			for _, t := range strings.Split(strings.Trim(tags, "[]"), ",") {
				c.Tags = append(c.Tags, strings.TrimSpace(t))
			}
		}
		if kind == "assigns" && strings.TrimSpace(text) == `\nothing` {
			return c, nil
		}
		e, err := ParseExpr(text)
		if err != nil {
			return nil, fail(l, "%v", err)
		}
		c.E = e
		return c, nil
	}
	for _, l := range merged {
		fields := strings.Fields(l.text)
		head := fields[0]
		rest := strings.TrimSpace(l.text[len(head):])
		switch head {
		case "func", "iface", "extern":
			cur = &FuncSpec{Kind: head, Pkg: pkgPath, Key: rest, Loops: map[int]*LoopSpec{}, Asserts: map[string][]*Clause{}, File: filepath.Base(l.file), Line: l.line}
			switch head {
			case "func":
				if _, dup := ps.Funcs[rest]; dup {
					return fail(l, "duplicate contract for %s", rest)
				}
				ps.Funcs[rest] = cur
			case "iface":
				ps.Ifaces[rest] = cur
			case "extern":
				ps.Externs[rest] = cur
			}
		case "global":
			e, err := ParseExpr(rest)
			if err != nil {
				return fail(l, "%v", err)
			}
			ps.Globals = append(ps.Globals, &Clause{Kind: "global", E: e, Text: rest, File: filepath.Base(l.file), Line: l.line})
			cur = nil
		case "constraint":
			k := strings.Index(rest, ":")
			if k < 0 {
				return fail(l, "constraint Type: expr")
			}
			ex, err := ParseExpr(rest[k+1:])
			if err != nil {
				return fail(l, "%v", err)
			}
			ps.Constraints[strings.TrimSpace(rest[:k])] = &Clause{Kind: "constraint", E: ex, Text: strings.TrimSpace(rest[k+1:]), File: filepath.Base(l.file), Line: l.line}
			cur = nil
		case "model":
			k := strings.Index(rest, "=")
			if k < 0 {
				return fail(l, "model Type.$name = expr")
			}
			key := strings.TrimSpace(rest[:k])
			ex, err := ParseExpr(rest[k+1:])
			if err != nil {
				return fail(l, "%v", err)
			}
			ps.Models[key] = &Clause{Kind: "model", E: ex, Text: strings.TrimSpace(rest[k+1:]), File: filepath.Base(l.file), Line: l.line}
			cur = nil
		case "ghost":
			f := strings.Fields(rest)
			if len(f) != 2 || !strings.HasPrefix(f[0], "$") {
				return fail(l, "ghost $name type")
			}
			ps.Ghosts[f[0]] = f[1]
			cur = nil
		case "pred":
			// pred name(a T, b U) = expr
			m := regexp.MustCompile(`^(\w+)\(([^)]*)\)\s*=\s*(.*)$`).FindStringSubmatch(rest)
			if m == nil {
				return fail(l, "bad pred definition")
			}
			p := &Pred{Name: m[1], Text: m[3]}
			if strings.TrimSpace(m[2]) != "" {
				for _, prm := range strings.Split(m[2], ",") {
					f := strings.Fields(prm)
					if len(f) == 1 {
						p.Params = append(p.Params, QVar{f[0], ""})
					} else if len(f) == 2 {
						p.Params = append(p.Params, QVar{f[0], f[1]})
					} else {
						return fail(l, "bad pred parameter %q", prm)
					}
				}
			}
			e, err := ParseExpr(m[3])
			if err != nil {
				return fail(l, "%v", err)
			}
			p.Body = e
			ps.Preds[p.Name] = p
			cur = nil
		default:
			if cur == nil {
				return fail(l, "clause outside a func/iface/extern block: %s", l.text)
			}
			switch head {
			case "arith":
				cur.ArithSet = true
				if rest == "int" {
					cur.Arith = ModeInt
				} else if rest == "bv" {
					cur.Arith = ModeBV
				} else {
					return fail(l, "arith bv|int")
				}
			case "trusted":
				cur.Trusted = true
			case "nilrecv":
				cur.NilRecv = true
			case "refines":
				cur.Refines = append(cur.Refines, strings.Fields(strings.ReplaceAll(rest, ",", " "))...)
			case "impl":
				ie, err := ParseExpr(rest)
				if err != nil {
					return fail(l, "%v", err)
				}
				cur.Impls = append(cur.Impls, ie)
			case "assert":
				// assert call N <expr>: must hold just before the N-th call instruction of the function
				// assert call N expr | assert call Name#k expr (the k-th call of a function/method called Name)
				if len(fields) < 4 || fields[1] != "call" {
					return fail(l, "assert call N|Name#k expr")
				}
				txt := strings.TrimSpace(rest[strings.Index(rest, fields[2])+len(fields[2]):])
				c, err := mkClause(l, "assert", "", txt)
				if err != nil {
					return err
				}
				key := "call#" + fields[2]
				if _, err := strconv.Atoi(fields[2]); err != nil {
					if !strings.Contains(fields[2], "#") {
						return fail(l, "assert call N|Name#k expr")
					}
					key = "call:" + fields[2]
				}
				c.Ord = len(cur.Asserts[key]) + 1
				cur.Asserts[key] = append(cur.Asserts[key], c)
			case "inline":
				cur.Inline = true
			case "pure":
				cur.Pure = true
			case "props":
				for _, p := range strings.Split(rest, ",") {
					cur.Props = append(cur.Props, strings.TrimSpace(p))
				}
			case "params":
				cur.Params = strings.Fields(strings.ReplaceAll(rest, ",", " "))
			case "results":
				cur.Results = strings.Fields(strings.ReplaceAll(rest, ",", " "))
			case "let":
				k := strings.Index(rest, "=")
				if k < 0 {
					return fail(l, "let name = expr")
				}
				e, err := ParseExpr(rest[k+1:])
				if err != nil {
					return fail(l, "%v", err)
				}
				cur.Lets = append(cur.Lets, LetDef{strings.TrimSpace(rest[:k]), e, strings.TrimSpace(rest[k+1:])})
			case "loop":
				if len(fields) < 3 {
					return fail(l, "loop N invariant|decreases expr")
				}
				n, err := strconv.Atoi(fields[1])
				if err != nil {
					return fail(l, "loop ordinal: %v", err)
				}
				sub := strings.TrimSpace(strings.TrimPrefix(strings.TrimSpace(rest), fields[1]))
				if sub == "never" {
					ls := cur.Loops[n]
					if ls == nil {
						ls = &LoopSpec{}
						cur.Loops[n] = ls
					}
					ls.Never = true
					continue
				}
				m := clauseRe.FindStringSubmatch(sub)
				if m == nil {
					return fail(l, "bad loop clause %q", sub)
				}
				c, err := mkClause(l, m[1], m[2], m[3])
				if err != nil {
					return err
				}
				ls := cur.Loops[n]
				if ls == nil {
					ls = &LoopSpec{}
					cur.Loops[n] = ls
				}
				switch m[1] {
				case "invariant":
					c.Ord = len(ls.Inv) + 1
					ls.Inv = append(ls.Inv, c)
				case "decreases":
					ls.Dec = c
				default:
					return fail(l, "loop clause must be invariant or decreases")
				}
			default:
				m := clauseRe.FindStringSubmatch(l.text)
				if m == nil {
					return fail(l, "unrecognised clause %q", l.text)
				}
				if m[1] == "assigns" {
					cur.HasAssign = true
					for _, piece := range splitTopLevel(m[3]) {
						c, err := mkClause(l, "assigns", m[2], piece)
						if err != nil {
							return err
						}
						if c.E != nil {
							cur.Assigns = append(cur.Assigns, c)
						}
					}
					continue
				}
				c, err := mkClause(l, m[1], m[2], m[3])
				if err != nil {
					return err
				}
				switch m[1] {
				case "requires":
					c.Ord = len(cur.Requires) + 1
					cur.Requires = append(cur.Requires, c)
				case "ensures":
					c.Ord = len(cur.Ensures) + 1
					cur.Ensures = append(cur.Ensures, c)
				case "assigns":
					cur.HasAssign = true
					if c.E != nil {
						// split top-level commas: parse as call args trick
						cur.Assigns = append(cur.Assigns, c)
					}
				case "decreases":
					cur.Decreases = c
				case "hint":
					cur.Hints = append(cur.Hints, c)
				default:
					return fail(l, "clause %s not allowed here", m[1])
				}
			}
		}
	}
	return nil
}

func newPkgSpec(path string) *PkgSpec {
	return &PkgSpec{Path: path, Preds: map[string]*Pred{}, Funcs: map[string]*FuncSpec{}, Ifaces: map[string]*FuncSpec{}, Externs: map[string]*FuncSpec{}, Ghosts: map[string]string{}, Models: map[string]*Clause{}, Constraints: map[string]*Clause{}}
}

func (ps *PkgSpec) sortedFuncKeys() []string {
	var ks []string
	for k := range ps.Funcs {
		ks = append(ks, k)
	}
	sort.Strings(ks)
	return ks
}
