package main

// SMT-LIB generation and the solver portfolio.

import (
	"bytes"
	"context"
	"fmt"
	"go/types"
	"os"
	"os/exec"
	"path/filepath"
	"sort"
	"strings"
	"sync"
	"time"
)

type solverCfg struct {
	name string
	argv []string
}

var solvers = []solverCfg{
	{"z3-new", []string{"z3-new", "-smt2"}},
	{"z3", []string{"z3", "-smt2"}},
	{"cvc5", []string{"cvc5", "--lang=smt2", "--full-saturate-quant", "--produce-models"}},
}

// background axioms that depend on which symbols occur
func (e *Engine) backgroundAxioms(ts []*Term, mode Mode) []*Term {
	var out []*Term
	ar := &Arith{Mode: mode}
	I := ar.I()
	seenApp := map[string][]*Term{}
	seen := map[*Term]bool{}
	for _, t := range ts {
		Walk(t, seen, func(x *Term) {
			if x.Op == "app" {
				seenApp[x.Name] = append(seenApp[x.Name], x)
			}
		})
	}
	lim47 := ar.Const(tInt, bigPow2(47))
	z := ar.IConst(0)
	ground := func(t *Term) bool {
		g := true
		Walk(t, map[*Term]bool{}, func(x *Term) {
			if x.Op == "var" && (strings.Contains(x.Name, "!q") || strings.HasPrefix(x.Name, "k!") || strings.HasPrefix(x.Name, "r!")) {
				g = false
			}
		})
		return g
	}
	dedup := map[string]bool{}
	for _, a := range seenApp["rsize"] {
		if !ground(a) || dedup[a.Key()] {
			continue
		}
		dedup[a.Key()] = true
		out = append(out, And(ar.Cmp(tokLEQ, tInt, z, a), ar.Cmp(tokLEQ, tInt, a, lim47)))
	}
	for _, a := range seenApp["addr"] {
		if !ground(a) || dedup[a.Key()] {
			continue
		}
		dedup[a.Key()] = true
		// A-addr: allocations live below 2^62 and do not wrap
		out = append(out, BVCmp("bvult", a, Const(BV(64), bigPow2(62))))
	}
	for _, a := range seenApp["addrI"] {
		if !ground(a) || dedup[a.Key()] {
			continue
		}
		dedup[a.Key()] = true
		out = append(out, And(IntCmp("<=", ConstI(IntSort, 0), a), IntCmp("<", a, Const(IntSort, bigPow2(62)))))
	}
	if len(seenApp["elemref"]) > 0 {
		r, i := Var("r!er", I), Var("i!er", I)
		app := App("elemref", I, r, i)
		out = append(out, Forall([]*Term{r, i}, And(Eq(App("elemref_reg", I, app), r), Eq(App("elemref_idx", I, app), i)), app))
	}
	// sub-object references are injective
	var subNames []string
	for n := range seenApp {
		if strings.HasPrefix(n, "sub_") {
			subNames = append(subNames, n)
		}
	}
	sort.Strings(subNames)
	for _, n := range subNames {
		r := Var("r!sub", I)
		app := App(n, I, r)
		out = append(out, Forall([]*Term{r}, Eq(App(n+"_inv", I, app), r), app))
	}
	for _, nm := range []string{"urem", "udiv"} {
		for _, a := range seenApp[nm] {
			if !ground(a) || dedup[a.Key()] {
				continue
			}
			dedup[a.Key()] = true
			x, y := a.Args[0], a.Args[1]
			if nm == "urem" {
				out = append(out, Implies(And(IntCmp(">=", x, z), IntCmp(">", y, z)), And(IntCmp(">=", a, z), IntCmp("<", a, y))))
			} else {
				out = append(out, Implies(And(IntCmp(">=", x, z), IntCmp(">", y, z)), And(IntCmp(">=", a, z), IntCmp("<=", a, x))))
			}
		}
	}
	// interface satisfaction facts for the registered dynamic types
	var iks []string
	for ik := range e.ifaceAsserts {
		iks = append(iks, ik)
	}
	sort.Strings(iks)
	for _, ik := range iks {
		if len(seenApp["impl_"+ik]) == 0 {
			continue
		}
		it := e.ifaceAsserts[ik]
		out = append(out, Not(App("impl_"+ik, BoolSort, z)))
		for id, t := range e.tagTypes {
			if t == nil {
				continue
			}
			f := App("impl_"+ik, BoolSort, ar.IConst(int64(id+1)))
			if types.Implements(t, it) {
				out = append(out, f)
			} else {
				out = append(out, Not(f))
			}
		}
	}
	return out
}

func (e *Engine) buildSMT(ob *Obligation) string {
	e.smtMu.Lock()
	defer e.smtMu.Unlock()
	saved := e.ar.Mode
	e.ar.Mode = ob.Mode
	defer func() { e.ar.Mode = saved }()
	var asserts []*Term
	seenA := map[*Term]bool{}
	for _, a := range ob.Assume {
		if !seenA[a] {
			seenA[a] = true
			asserts = append(asserts, a)
		}
	}
	goal := Not(ob.Goal)
	asserts = relevant(asserts, goal)
	all := append(append([]*Term{}, asserts...), goal)
	unf := e.unfoldSpecs(all, e.fuel)
	all = append(all, unf...)
	bg := e.backgroundAxioms(all, ob.Mode)
	all = append(all, bg...)
	var sb strings.Builder
	sb.WriteString("(set-option :produce-models true)\n(set-logic ALL)\n")
	for _, s := range collectSyms(all) {
		if len(s.dom) == 0 {
			fmt.Fprintf(&sb, "(declare-fun %s () %s)\n", smtName(s.name), s.rng)
		} else {
			var ds []string
			for _, d := range s.dom {
				ds = append(ds, d.String())
			}
			fmt.Fprintf(&sb, "(declare-fun %s (%s) %s)\n", smtName(s.name), strings.Join(ds, " "), s.rng)
		}
	}
	for _, a := range bg {
		fmt.Fprintf(&sb, "(assert %s)\n", a.Key())
	}
	for _, a := range unf {
		fmt.Fprintf(&sb, "(assert %s)\n", a.Key())
	}
	for _, a := range asserts {
		fmt.Fprintf(&sb, "(assert %s)\n", a.Key())
	}
	fmt.Fprintf(&sb, "(assert %s)\n", goal.Key())
	sb.WriteString("(check-sat)\n")
	return sb.String()
}

func smtName(n string) string { return n }

func runSolver(ctx context.Context, s solverCfg, file string, timeout time.Duration) (status, out string, dur float64) {
	wall := timeout
	if s.name != "cvc5" {
		wall = 4*timeout + 2*time.Second
	}
	cctx, cancel := context.WithTimeout(ctx, wall)
	defer cancel()
	argv := append([]string{}, s.argv...)
	switch s.name {
	case "z3-new", "z3":
		// deterministic resource limit (about 2.2M units per second on an idle core) instead of
		// wall-clock time, so that machine load cannot turn a proof into a timeout
		argv = append(argv, fmt.Sprintf("-T:%d", 4*int(timeout.Seconds())+1), fmt.Sprintf("rlimit=%d", int64(timeout.Seconds())*2200000))
	case "cvc5":
		argv = append(argv, fmt.Sprintf("--tlimit=%d", timeout.Milliseconds()))
	}
	argv = append(argv, file)
	cmd := exec.CommandContext(cctx, argv[0], argv[1:]...)
	var buf bytes.Buffer
	cmd.Stdout = &buf
	cmd.Stderr = &buf
	t0 := time.Now()
	_ = cmd.Run()
	dur = time.Since(t0).Seconds()
	out = buf.String()
	first := strings.TrimSpace(strings.SplitN(out, "\n", 2)[0])
	switch first {
	case "sat", "unsat", "unknown":
		status = first
	default:
		if cctx.Err() != nil || strings.Contains(out, "timeout") || strings.Contains(out, "interrupted") {
			status = "timeout"
		} else {
			status = "error"
		}
	}
	return
}

// solveAll discharges all pending obligations in parallel.
func (e *Engine) solveAll(dir string, timeout time.Duration, workers int) {
	var wg sync.WaitGroup
	ch := make(chan *Obligation)
	for w := 0; w < workers; w++ {
		wg.Add(1)
		go func(w int) {
			defer wg.Done()
			for ob := range ch {
				e.solveOne(ob, dir, timeout)
			}
		}(w)
	}
	for i, ob := range e.obligations {
		if ob.Status != "" {
			continue
		}
		ob.SMT = filepath.Join(dir, fmt.Sprintf("ob%05d.smt2", i))
		ch <- ob
	}
	close(ch)
	wg.Wait()
}

var buildTime time.Duration

func (e *Engine) solveOne(ob *Obligation, dir string, timeout time.Duration) {
	tb := time.Now()
	smt := e.buildSMT(ob)
	buildTime += time.Since(tb)
	if err := os.WriteFile(ob.SMT, []byte(smt), 0o644); err != nil {
		ob.Status, ob.Output = "error", err.Error()
		return
	}
	ctx := context.Background()
	// cover queries: a quick satisfiability probe
	if ob.Cover {
		st, out, d := runSolver(ctx, solvers[0], ob.SMT, minDur(timeout, 5*time.Second))
		ob.Status, ob.Output, ob.Time, ob.Solver = st, out, d, solvers[0].name
		return
	}
	// portfolio: z3-new starts alone; if it has not answered after a grace period the other
	// two join. The first `unsat` discharges the obligation; `sat` from a solver is final
	// for quantifier-free queries.
	type res struct {
		st, out, name string
		d             float64
	}
	quant := strings.Contains(smt, "(forall") || strings.Contains(smt, "(exists")
	rc := make(chan res, len(solvers))
	cctx, cancel := context.WithCancel(ctx)
	defer cancel()
	launch := func(s solverCfg) {
		go func() {
			st, out, d := runSolver(cctx, s, ob.SMT, timeout)
			rc <- res{st, out, s.name, d}
		}()
	}
	launch(solvers[0])
	pending := 1
	launched := 1
	grace := time.After(5 * time.Second)
	best := res{st: "unknown"}
	for pending > 0 {
		select {
		case <-grace:
			for launched < len(solvers) {
				launch(solvers[launched])
				launched++
				pending++
			}
		case r := <-rc:
			pending--
			ob.Time += r.d
			if r.st == "unsat" {
				ob.Status, ob.Output, ob.Solver = "unsat", r.out, r.name
				return
			}
			if r.st == "sat" && !quant {
				ob.Status, ob.Output, ob.Solver = "sat", r.out, r.name
				cancel()
				ob.Model = e.getModel(ob, timeout)
				return
			}
			if r.st == "sat" || best.st == "unknown" || best.st == "error" {
				if best.st != "sat" {
					best = r
				}
			}
			if pending == 0 && launched < len(solvers) {
				for launched < len(solvers) {
					launch(solvers[launched])
					launched++
					pending++
				}
			}
		}
	}
	ob.Status, ob.Output, ob.Solver = best.st, best.out, best.name
	if ob.Status == "sat" {
		ob.Model = e.getModel(ob, timeout)
	}
}

func minDur(a, b time.Duration) time.Duration {
	if a < b {
		return a
	}
	return b
}

func (e *Engine) getModel(ob *Obligation, timeout time.Duration) string {
	f := strings.TrimSuffix(ob.SMT, ".smt2") + ".model.smt2"
	data, err := os.ReadFile(ob.SMT)
	if err != nil {
		return ""
	}
	if err := os.WriteFile(f, append(data, []byte("(get-model)\n")...), 0o644); err != nil {
		return ""
	}
	_, out, _ := runSolver(context.Background(), solvers[0], f, timeout)
	if len(out) > 200000 {
		out = out[:200000]
	}
	return out
}

// relevant keeps the assumptions connected to the goal through shared symbols (cone of
// influence). Dropping assumptions can only make a query harder to refute, never easier,
// so the filter is sound. Hub symbols (allocation maps, region sizes) do not propagate.
var symCache = map[*Term]map[string]bool{}

func relevant(asserts []*Term, goal *Term) []*Term {
	isHub := func(n string) bool {
		return strings.HasPrefix(n, "Alloc!") || n == "rsize" || n == "addr" || n == "elemref" || strings.HasPrefix(n, "sub_")
	}
	symsOf := func(t *Term) map[string]bool {
		if m, ok := symCache[t]; ok {
			return m
		}
		m := map[string]bool{}
		defer func() { symCache[t] = m }()
		var rec func(t *Term, bound map[string]bool)
		seen := map[*Term]bool{}
		rec = func(t *Term, bound map[string]bool) {
			if len(bound) == 0 {
				if seen[t] {
					return
				}
				seen[t] = true
			}
			switch t.Op {
			case "var":
				if !bound[t.Name] {
					m[t.Name] = true
				}
			case "app":
				m[t.Name] = true
			case "forall", "exists":
				nb := map[string]bool{}
				for k := range bound {
					nb[k] = true
				}
				for _, b := range t.Bound {
					nb[b.Name] = true
				}
				for _, a := range t.Args {
					rec(a, nb)
				}
				return
			}
			for _, a := range t.Args {
				rec(a, bound)
			}
		}
		rec(t, nil)
		return m
	}
	rel := map[string]bool{}
	for s := range symsOf(goal) {
		rel[s] = true
	}
	type item struct {
		t    *Term
		syms map[string]bool
		in   bool
	}
	items := make([]*item, len(asserts))
	for i, a := range asserts {
		items[i] = &item{t: a, syms: symsOf(a)}
	}
	changed := true
	for changed {
		changed = false
		for _, it := range items {
			if it.in {
				continue
			}
			hit := false
			nonHub := 0
			for s := range it.syms {
				if isHub(s) {
					continue
				}
				nonHub++
				if rel[s] {
					hit = true
				}
			}
			if nonHub == 0 {
				for s := range it.syms {
					if rel[s] {
						hit = true
					}
				}
			}
			// definitions of relevant names (heap versions, including allocation maps)
			if !hit && it.t.Op == "=" && it.t.Args[0].Op == "var" && rel[it.t.Args[0].Name] {
				hit = true
			}
			if hit {
				it.in = true
				changed = true
				for s := range it.syms {
					if !rel[s] {
						rel[s] = true
					}
				}
			}
		}
	}
	var out []*Term
	for _, it := range items {
		if it.in {
			out = append(out, it.t)
		}
	}
	return out
}
