package main

// SMT-LIB generation and the solver portfolio.

import (
	"bytes"
	"context"
	"fmt"
	"os"
	"os/exec"
	"path/filepath"
	"sort"
	"strings"
	"sync"
	"time"
)

type solverCfg struct {
	name string
	argv []string
}

var solvers = []solverCfg{
	{"z3-new", []string{"z3-new", "-smt2"}},
	{"z3", []string{"z3", "-smt2"}},
	{"cvc5", []string{"cvc5", "--lang=smt2", "--full-saturate-quant", "--produce-models"}},
}

// background axioms that depend on which symbols occur
func (e *Engine) backgroundAxioms(ts []*Term, mode Mode, typed []*Term) []*Term {
	var out []*Term
	ar := &Arith{Mode: mode}
	I := ar.I()
	seenApp := map[string][]*Term{}
	seen := map[*Term]bool{}
	for _, t := range ts {
		Walk(t, seen, func(x *Term) {
			if x.Op == "app" {
				seenApp[x.Name] = append(seenApp[x.Name], x)
			}
		})
	}
	lim47 := ar.Const(tInt, bigPow2(47))
	z := ar.IConst(0)
	ground := func(t *Term) bool {
		g := true
		Walk(t, map[*Term]bool{}, func(x *Term) {
			if x.Op == "var" && strings.HasPrefix(x.Name, "$b_") {
				g = false
			}
		})
		return g
	}
	dedup := map[string]bool{}
	for _, a := range seenApp["rsize"] {
		if !ground(a) || dedup[a.Key()] {
			continue
		}
		dedup[a.Key()] = true
		out = append(out, And(ar.Cmp(tokLEQ, tInt, z, a), ar.Cmp(tokLEQ, tInt, a, lim47)))
	}
	for _, a := range seenApp["addr"] {
		if !ground(a) || dedup[a.Key()] {
			continue
		}
		dedup[a.Key()] = true
		// A-addr: allocations live below 2^62 and do not wrap
		out = append(out, BVCmp("bvult", a, Const(BV(64), bigPow2(62))))
	}
	for _, a := range seenApp["addrI"] {
		if !ground(a) || dedup[a.Key()] {
			continue
		}
		dedup[a.Key()] = true
		out = append(out, And(IntCmp("<=", ConstI(IntSort, 0), a), IntCmp("<", a, Const(IntSort, bigPow2(62)))))
	}
	if len(seenApp["elemref"]) > 0 {
		r, i := Var("$b_rer", I), Var("$b_ier", I)
		app := App("elemref", I, r, i)
		// injective, and an element of an allocated region is not at address nil
		out = append(out, Forall([]*Term{r, i}, And(Eq(App("elemref_reg", I, app), r), Eq(App("elemref_idx", I, app), i), Implies(Not(Eq(r, ConstI(I, 0))), Not(Eq(app, ConstI(I, 0))))), app))
	}
	// int mode: bytes read from byte arrays are in 0..255 (typing of memory contents)
	if mode == ModeInt && os.Getenv("GOVC_NOBYTES") == "" {
		seenSel := map[*Term]bool{}
		nb := 0
		for _, t := range typed {
			Walk(t, seenSel, func(x *Term) {
				if x.Op == "select" && x.S == IntSort && nb < 4000 && isByteArrayTerm(x.Args[0]) && ground(x) {
					if !dedup[x.Key()] {
						dedup[x.Key()] = true
						nb++
						out = append(out, And(IntCmp("<=", z, x), IntCmp("<=", x, ConstI(IntSort, 255))))
					}
				}
			})
		}
	}
	// sub-object references are injective
	var subNames []string
	for n := range seenApp {
		if strings.HasPrefix(n, "sub_") {
			subNames = append(subNames, n)
		}
	}
	sort.Strings(subNames)
	for _, n := range subNames {
		r := Var("$b_rsub", I)
		app := App(n, I, r)
		// ... and a sub-object of a non-nil object is not at address nil
		out = append(out, Forall([]*Term{r}, And(Eq(App(n+"_inv", I, app), r), Implies(Not(Eq(r, ConstI(I, 0))), Not(Eq(app, ConstI(I, 0))))), app))
	}
	// symbolic products: linear facts about multiplication, instantiated on the ground applications
	if ms := seenApp["umul"]; len(ms) > 0 {
		one := ConstI(IntSort, 1)
		var gms []*Term
		for _, a := range ms {
			if ground(a) && !dedup[a.Key()] {
				dedup[a.Key()] = true
				gms = append(gms, a)
			}
		}
		for _, a := range gms {
			x, y := a.Args[0], a.Args[1]
			out = append(out,
				Implies(Eq(x, z), Eq(a, z)), Implies(Eq(y, z), Eq(a, z)),
				Implies(Eq(x, one), Eq(a, y)), Implies(Eq(y, one), Eq(a, x)),
				Implies(And(IntCmp(">=", x, z), IntCmp(">=", y, z)), IntCmp(">=", a, z)),
				Implies(And(IntCmp(">=", x, one), IntCmp(">=", y, one)), And(IntCmp(">=", a, x), IntCmp(">=", a, y))))
			// small factor: |y| <= 16 gives a linear bound (sizes of fixed-size Thrift types)
			for _, p := range [][2]*Term{{x, y}, {y, x}} {
				big, small := p[0], p[1]
				out = append(out, Implies(And(IntCmp(">=", big, z), IntCmp(">=", small, z), IntCmp("<=", small, ConstI(IntSort, 16))),
					IntCmp("<=", a, IntOp("*", big, ConstI(IntSort, 16)))))
			}
		}
		// step and monotonicity between applications sharing a factor
		for i, a := range gms {
			for j, b := range gms {
				if i == j {
					continue
				}
				if i < j {
					// commutativity
					out = append(out, Implies(And(Eq(a.Args[0], b.Args[1]), Eq(a.Args[1], b.Args[0])), Eq(a, b)))
				}
				for _, pa := range [][2]*Term{{a.Args[0], a.Args[1]}, {a.Args[1], a.Args[0]}} {
					for _, pb := range [][2]*Term{{b.Args[0], b.Args[1]}, {b.Args[1], b.Args[0]}} {
						// a = xa * f, b = xb * f with the same factor f
						out = append(out, Implies(And(Eq(pa[1], pb[1]), Eq(pa[0], IntOp("+", pb[0], one))), Eq(a, IntOp("+", b, pa[1]))))
					}
				}
			}
		}
	}
	for _, nm := range []string{"urem", "udiv"} {
		for _, a := range seenApp[nm] {
			if !ground(a) || dedup[a.Key()] {
				continue
			}
			dedup[a.Key()] = true
			x, y := a.Args[0], a.Args[1]
			if nm == "urem" {
				out = append(out, Implies(And(IntCmp(">=", x, z), IntCmp(">", y, z)), And(IntCmp(">=", a, z), IntCmp("<", a, y))))
			} else {
				out = append(out, Implies(And(IntCmp(">=", x, z), IntCmp(">", y, z)), And(IntCmp(">=", a, z), IntCmp("<=", a, x))))
			}
		}
	}
	// interface satisfaction facts for the registered dynamic types
	var iks []string
	for ik := range e.ifaceAsserts {
		iks = append(iks, ik)
	}
	sort.Strings(iks)
	for _, ik := range iks {
		if len(seenApp["impl_"+ik]) == 0 {
			continue
		}
		it := e.ifaceAsserts[ik]
		out = append(out, Not(App("impl_"+ik, BoolSort, z)))
		for id := range e.tagTypes {
			f := App("impl_"+ik, BoolSort, ar.IConst(int64(id+1)))
			if e.tagImplements(id+1, it) {
				out = append(out, f)
			} else {
				out = append(out, Not(f))
			}
		}
	}
	return out
}

func (e *Engine) buildSMT(ob *Obligation) string {
	e.smtMu.Lock()
	defer e.smtMu.Unlock()
	saved := e.ar.Mode
	e.ar.Mode = ob.Mode
	defer func() { e.ar.Mode = saved }()
	var asserts []*Term
	seenA := map[*Term]bool{}
	seenH := map[uint64][]*Term{}
	for _, a := range ob.Assume {
		if seenA[a] {
			continue
		}
		seenA[a] = true
		dup := false
		for _, o := range seenH[a.hash()] {
			if sameTerm(o, a) {
				dup = true
				break
			}
		}
		if dup {
			continue
		}
		seenH[a.hash()] = append(seenH[a.hash()], a)
		asserts = append(asserts, a)
	}
	goal := Not(ob.Goal)
	if !ob.Cover && !ob.Goal.IsFalse() {
		// (a goal `false` - unreachability - has no symbols to start the cone of influence from)
		asserts = relevant(asserts, goal)
	}
	all := append(append([]*Term{}, asserts...), goal)
	// lemma instances (hints) are not roots for unfolding: their spec-function applications
	// are unfolded only if they also occur in the rest of the query
	var roots []*Term
	for _, a := range all {
		if !e.hintTerms[a] {
			roots = append(roots, a)
		}
	}
	unf := e.unfoldSpecs(roots, e.fuel)
	unf = append(unf, e.contentCongruence(roots)...)
	typed := append([]*Term{}, all...) // byte typing facts: for the query proper, not for the unfolded definitions
	all = append(all, unf...)
	bg := e.backgroundAxioms(all, ob.Mode, typed)
	all = append(all, bg...)
	var sb strings.Builder
	sb.WriteString("(set-option :produce-models true)\n(set-logic ALL)\n")
	for _, s := range collectSyms(all) {
		if len(s.dom) == 0 {
			fmt.Fprintf(&sb, "(declare-fun %s () %s)\n", smtName(s.name), s.rng)
		} else {
			var ds []string
			for _, d := range s.dom {
				ds = append(ds, d.String())
			}
			fmt.Fprintf(&sb, "(declare-fun %s (%s) %s)\n", smtName(s.name), strings.Join(ds, " "), s.rng)
		}
	}
	pr := newDagPrinter(all)
	var body strings.Builder
	for _, a := range bg {
		fmt.Fprintf(&body, "(assert %s)\n", pr.print(a))
	}
	for _, a := range unf {
		fmt.Fprintf(&body, "(assert %s)\n", pr.print(a))
	}
	for _, a := range asserts {
		fmt.Fprintf(&body, "(assert %s)\n", pr.print(a))
	}
	fmt.Fprintf(&body, "(assert %s)\n", pr.print(goal))
	sb.WriteString(pr.defs.String())
	sb.WriteString(body.String())
	sb.WriteString("(check-sat)\n")
	return sb.String()
}

// dagPrinter prints terms with shared ground subterms named once by define-fun, so that the
// text stays proportional to the DAG size of the query.
type dagPrinter struct {
	count map[uint64]int
	names map[uint64][]namedTerm
	defs  strings.Builder
	n     int
	memo  map[*Term]string
	bnd   map[*Term]bool
}

type namedTerm struct {
	t    *Term
	name string
}

func newDagPrinter(ts []*Term) *dagPrinter {
	p := &dagPrinter{count: map[uint64]int{}, names: map[uint64][]namedTerm{}, memo: map[*Term]string{}, bnd: map[*Term]bool{}}
	seen := map[*Term]bool{}
	var rec func(t *Term)
	rec = func(t *Term) {
		p.count[t.hash()]++
		if seen[t] {
			return
		}
		seen[t] = true
		for _, a := range t.Args {
			rec(a)
		}
	}
	for _, t := range ts {
		rec(t)
	}
	return p
}

// hasBound: the term mentions a quantifier-bound variable (cannot be hoisted)
func (p *dagPrinter) hasBound(t *Term) bool {
	if v, ok := p.bnd[t]; ok {
		return v
	}
	r := false
	if t.Op == "var" && strings.HasPrefix(t.Name, "$b_") {
		r = true
	}
	for _, a := range t.Args {
		if p.hasBound(a) {
			r = true
		}
	}
	p.bnd[t] = r
	return r
}

func (p *dagPrinter) print(t *Term) string {
	if s, ok := p.memo[t]; ok {
		return s
	}
	h := t.hash()
	for _, nt := range p.names[h] {
		if sameTerm(nt.t, t) {
			p.memo[t] = nt.name
			return nt.name
		}
	}
	var s string
	switch {
	case len(t.Args) == 0:
		s = t.Key()
	case t.Op == "forall" || t.Op == "exists":
		var sb strings.Builder
		sb.WriteString("(" + t.Op + " (")
		for _, b := range t.Bound {
			fmt.Fprintf(&sb, "(%s %s)", b.Name, b.S)
		}
		sb.WriteString(") ")
		pats := t.Args[1:]
		if len(pats) > 0 {
			sb.WriteString("(! ")
		}
		sb.WriteString(p.print(t.Args[0]))
		for _, pt := range pats {
			if pt.Op == "mpat" {
				var qs []string
				for _, q := range pt.Args {
					qs = append(qs, p.print(q))
				}
				sb.WriteString(" :pattern (" + strings.Join(qs, " ") + ")")
			} else {
				sb.WriteString(" :pattern (" + p.print(pt) + ")")
			}
		}
		if len(pats) > 0 {
			sb.WriteString(")")
		}
		sb.WriteString(")")
		s = sb.String()
	default:
		var sb strings.Builder
		switch t.Op {
		case "app":
			sb.WriteString("(" + t.Name)
		case "extract":
			fmt.Fprintf(&sb, "((_ extract %d %d)", t.I, t.J)
		case "zext":
			fmt.Fprintf(&sb, "((_ zero_extend %d)", t.I)
		case "sext":
			fmt.Fprintf(&sb, "((_ sign_extend %d)", t.I)
		case "constarr":
			fmt.Fprintf(&sb, "((as const %s)", t.S)
		default:
			sb.WriteString("(" + t.Op)
		}
		for _, a := range t.Args {
			sb.WriteByte(' ')
			sb.WriteString(p.print(a))
		}
		sb.WriteByte(')')
		s = sb.String()
	}
	if p.count[h] >= 2 && len(s) > 24 && t.S != nil && !p.hasBound(t) && t.Op != "forall" && t.Op != "exists" && os.Getenv("GOVC_NODAG") == "" {
		p.n++
		name := fmt.Sprintf("$t%d", p.n)
		fmt.Fprintf(&p.defs, "(define-fun %s () %s %s)\n", name, t.S, s)
		p.names[h] = append(p.names[h], namedTerm{t, name})
		s = name
	}
	p.memo[t] = s
	return s
}

func smtName(n string) string { return n }

func runSolver(ctx context.Context, s solverCfg, file string, timeout time.Duration) (status, out string, dur float64) {
	// z3 is limited by a deterministic resource count (below) with a generous wall-clock backstop;
	// cvc5 1.0 has no comparable knob calibrated here, so it gets three times the nominal wall budget:
	// an obligation only cvc5 decides must not turn into a timeout because the machine is busy
	wall := 3 * timeout
	if s.name != "cvc5" {
		wall = 4*timeout + 2*time.Second
	}
	cctx, cancel := context.WithTimeout(ctx, wall)
	defer cancel()
	argv := append([]string{}, s.argv...)
	switch s.name {
	case "z3-new", "z3":
		// deterministic resource limit (about 2.2M units per second on an idle core) instead of
		// wall-clock time, so that machine load cannot turn a proof into a timeout
		argv = append(argv, fmt.Sprintf("-T:%d", 4*int(timeout.Seconds())+1), fmt.Sprintf("rlimit=%d", int64(timeout.Seconds())*2200000))
	case "cvc5":
		argv = append(argv, fmt.Sprintf("--tlimit=%d", 3*timeout.Milliseconds()))
	}
	argv = append(argv, file)
	cmd := exec.CommandContext(cctx, argv[0], argv[1:]...)
	var buf bytes.Buffer
	cmd.Stdout = &buf
	cmd.Stderr = &buf
	t0 := time.Now()
	_ = cmd.Run()
	dur = time.Since(t0).Seconds()
	out = buf.String()
	// the verdict is the first line that is not a solver warning; an "(error" anywhere invalidates it
	first := ""
	for _, ln := range strings.Split(out, "\n") {
		ln = strings.TrimSpace(ln)
		if ln == "" || strings.HasPrefix(ln, "WARNING") {
			continue
		}
		first = ln
		break
	}
	if strings.Contains(out, "(error") {
		first = "error: " + first
	}
	switch first {
	case "sat", "unsat", "unknown":
		status = first
	default:
		if cctx.Err() != nil || strings.Contains(out, "timeout") || strings.Contains(out, "interrupted") {
			status = "timeout"
		} else {
			status = "error"
		}
	}
	return
}

// solveAll discharges all pending obligations in parallel.
func (e *Engine) solveAll(dir string, timeout time.Duration, workers int) {
	var wg sync.WaitGroup
	ch := make(chan *Obligation)
	for w := 0; w < workers; w++ {
		wg.Add(1)
		go func(w int) {
			defer wg.Done()
			for ob := range ch {
				e.solveOne(ob, dir, timeout)
			}
		}(w)
	}
	for i, ob := range e.obligations {
		if ob.Status != "" {
			continue
		}
		ob.SMT = filepath.Join(dir, fmt.Sprintf("ob%05d.smt2", i))
		ch <- ob
	}
	close(ch)
	wg.Wait()
}

var buildTime time.Duration

func (e *Engine) solveOne(ob *Obligation, dir string, timeout time.Duration) {
	defer func() {
		if r := recover(); r != nil {
			ob.Status = "error"
			ob.Output = fmt.Sprintf("engine error while building the query: %v", r)
		}
	}()
	tb := time.Now()
	smt := e.buildSMT(ob)
	buildTime += time.Since(tb)
	if err := os.WriteFile(ob.SMT, []byte(smt), 0o644); err != nil {
		ob.Status, ob.Output = "error", err.Error()
		return
	}
	ctx := context.Background()
	// cover queries: a quick satisfiability probe
	if ob.Cover {
		st, out, d := runSolver(ctx, solvers[0], ob.SMT, minDur(timeout, 1500*time.Millisecond))
		ob.Status, ob.Output, ob.Time, ob.Solver = st, out, d, solvers[0].name
		if !keepSMT {
			os.Remove(ob.SMT) // probes are large (no relevance filter) and never replayed
		}
		return
	}
	// portfolio: z3-new starts alone; if it has not answered after a grace period the other
	// two join. The first `unsat` discharges the obligation; `sat` from a solver is final
	// for quantifier-free queries.
	type res struct {
		st, out, name string
		d             float64
	}
	quant := strings.Contains(smt, "(forall") || strings.Contains(smt, "(exists")
	rc := make(chan res, len(solvers))
	cctx, cancel := context.WithCancel(ctx)
	defer cancel()
	launch := func(s solverCfg) {
		go func() {
			st, out, d := runSolver(cctx, s, ob.SMT, timeout)
			rc <- res{st, out, s.name, d}
		}()
	}
	launch(solvers[0])
	pending := 1
	launched := 1
	grace := time.After(5 * time.Second)
	best := res{st: "unknown"}
	for pending > 0 {
		select {
		case <-grace:
			for launched < len(solvers) {
				launch(solvers[launched])
				launched++
				pending++
			}
		case r := <-rc:
			pending--
			ob.Time += r.d
			if r.st == "unsat" {
				ob.Status, ob.Output, ob.Solver = "unsat", r.out, r.name
				return
			}
			if r.st == "sat" && !quant {
				ob.Status, ob.Output, ob.Solver = "sat", r.out, r.name
				cancel()
				ob.Model = e.getModel(ob, timeout)
				return
			}
			if r.st == "sat" || best.st == "unknown" || best.st == "error" {
				if best.st != "sat" {
					best = r
				}
			}
			if pending == 0 && launched < len(solvers) {
				for launched < len(solvers) {
					launch(solvers[launched])
					launched++
					pending++
				}
			}
		}
	}
	ob.Status, ob.Output, ob.Solver = best.st, best.out, best.name
	if ob.Status == "sat" {
		ob.Model = e.getModel(ob, timeout)
	}
}

func minDur(a, b time.Duration) time.Duration {
	if a < b {
		return a
	}
	return b
}

func (e *Engine) getModel(ob *Obligation, timeout time.Duration) string {
	f := strings.TrimSuffix(ob.SMT, ".smt2") + ".model.smt2"
	data, err := os.ReadFile(ob.SMT)
	if err != nil {
		return ""
	}
	if err := os.WriteFile(f, append(data, []byte("(get-model)\n")...), 0o644); err != nil {
		return ""
	}
	_, out, _ := runSolver(context.Background(), solvers[0], f, timeout)
	if len(out) > 200000 {
		out = out[:200000]
	}
	return out
}

// relevant keeps the assumptions connected to the goal through shared symbols (cone of
// influence). Dropping assumptions can only make a query harder to refute, never easier,
// so the filter is sound. Hub symbols (allocation maps, region sizes) do not propagate.
var symCache = map[*Term]map[string]bool{}

var keepSMT bool

func relevant(asserts []*Term, goal *Term) []*Term {
	isHub := func(n string) bool {
		return strings.HasPrefix(n, "Alloc!") || n == "rsize" || n == "addr" || n == "elemref" || strings.HasPrefix(n, "sub_")
	}
	symsOf := func(t *Term) map[string]bool {
		if m, ok := symCache[t]; ok {
			return m
		}
		m := map[string]bool{}
		defer func() { symCache[t] = m }()
		var rec func(t *Term, bound map[string]bool)
		seen := map[*Term]bool{}
		rec = func(t *Term, bound map[string]bool) {
			if len(bound) == 0 {
				if seen[t] {
					return
				}
				seen[t] = true
			}
			switch t.Op {
			case "var":
				if !bound[t.Name] {
					m[t.Name] = true
				}
			case "app":
				m[t.Name] = true
			case "forall", "exists":
				nb := map[string]bool{}
				for k := range bound {
					nb[k] = true
				}
				for _, b := range t.Bound {
					nb[b.Name] = true
				}
				for _, a := range t.Args {
					rec(a, nb)
				}
				return
			}
			for _, a := range t.Args {
				rec(a, bound)
			}
		}
		rec(t, nil)
		return m
	}
	rel := map[string]bool{}
	for s := range symsOf(goal) {
		rel[s] = true
	}
	type item struct {
		t    *Term
		syms map[string]bool
		in   bool
	}
	items := make([]*item, len(asserts))
	for i, a := range asserts {
		items[i] = &item{t: a, syms: symsOf(a)}
	}
	changed := true
	for changed {
		changed = false
		for _, it := range items {
			if it.in {
				continue
			}
			hit := false
			nonHub := 0
			for s := range it.syms {
				if isHub(s) {
					continue
				}
				nonHub++
				if rel[s] {
					hit = true
				}
			}
			if nonHub == 0 {
				for s := range it.syms {
					if rel[s] {
						hit = true
					}
				}
			}
			// definitions of relevant names (heap versions, including allocation maps)
			if !hit && it.t.Op == "=" && it.t.Args[0].Op == "var" && rel[it.t.Args[0].Name] {
				hit = true
			}
			if hit {
				it.in = true
				changed = true
				for s := range it.syms {
					if !rel[s] {
						rel[s] = true
					}
				}
			}
		}
	}
	var out []*Term
	for _, it := range items {
		if it.in {
			out = append(out, it.t)
		}
	}
	return out
}

// isByteArrayTerm: the term denotes an array of bytes (by the origin of its root symbol)
func isByteArrayTerm(t *Term) bool {
	if t.S.K != SArray || t.S.Elem != IntSort {
		return false
	}
	for {
		switch t.Op {
		case "store":
			t = t.Args[0]
			continue
		case "ite":
			return isByteArrayTerm(t.Args[1]) && isByteArrayTerm(t.Args[2])
		case "select":
			// element of a map of arrays: Mem_uint8_ (regions), *_arr leaves of strings
			r := t.Args[0]
			for r.Op == "store" {
				r = r.Args[0]
			}
			if r.Op == "var" {
				n := r.Name
				return strings.HasPrefix(n, "Mem_uint8_") || strings.Contains(n, "_arr!") || strings.HasSuffix(n, "_arr")
			}
			return false
		case "var":
			n := t.Name
			return strings.HasPrefix(n, "strlit_") || strings.HasPrefix(n, "cat!") || strings.HasPrefix(n, "cp!") || strings.HasPrefix(n, "hv!") ||
				strings.HasPrefix(n, "cpm!") || strings.Contains(n, ".arr!") || strings.HasSuffix(n, ".arr")
		case "constarr":
			return true
		}
		return false
	}
}
