package main

// Calls: builtins, intrinsics, contracts (modular), inlining, interface invokes.

import (
	"os"
	"fmt"
	"go/token"
	"go/types"
	"strings"

	"golang.org/x/tools/go/ssa"
)

func (x *Exec) resultOf(sig *types.Signature, rs []Val) Val {
	switch sig.Results().Len() {
	case 0:
		return nil
	case 1:
		return rs[0]
	}
	return VTuple{rs}
}

func (x *Exec) call(st *State, c *ssa.Call, k func(st *State, res Val)) {
	e := x.e
	com := c.Common()
	// assertions attached to call sites of the function under verification
	if fr := st.ext().fr; fr != nil && fr.parent == nil && x.spec != nil && (len(x.spec.Asserts) > 0 || os.Getenv("GOVC_CALLS") != "") && x.pure == 0 {
		ord := x.ordinal(c, "call")
		if os.Getenv("GOVC_CALLS") != "" {
			fmt.Fprintf(os.Stderr, "call#%d %s %s\n", ord, x.qname, c.String())
		}
		cls := x.spec.Asserts[fmt.Sprintf("call#%d", ord)]
		if nm := calleeShortName(c); nm != "" {
			// k-th call of that callee in block order
			k := 0
			for _, b := range c.Parent().Blocks {
				for _, in := range b.Instrs {
					if cc, ok := in.(*ssa.Call); ok && calleeShortName(cc) == nm {
						k++
						if cc == c {
							cls = append(append([]*Clause{}, cls...), x.spec.Asserts[fmt.Sprintf("call:%s#%d", nm, k)]...)
						}
					}
				}
			}
		}
		if len(cls) > 0 {
			env := x.envAt(st, fr)
			for _, cl := range cls {
				g := x.evalBool(st, env, cl)
				if !x.primary {
					st.assume(g)
					continue
				}
				x.oblige(st, fmt.Sprintf("%s/assert@call#%d.%d", x.qname, ord, cl.Ord), "assert", g, cl.Text, fmt.Sprintf("%s:%d", cl.File, cl.Line), nil)
			}
		}
	}
	if com.IsInvoke() {
		recv := x.val(st, com.Value)
		var args []Val
		for _, a := range com.Args {
			args = append(args, x.val(st, a))
		}
		x.invoke(st, c, com, recv, args, k)
		return
	}
	var args []Val
	for _, a := range com.Args {
		args = append(args, x.val(st, a))
	}
	switch f := com.Value.(type) {
	case *ssa.Builtin:
		x.builtin(st, c, f, com.Args, args, k)
		return
	case *ssa.Function:
		x.staticCall(st, c, f, args, k)
		return
	}
	fv := x.val(st, com.Value)
	if vf, ok := fv.(VFunc); ok && vf.Fn != nil {
		x.staticCall(st, c, vf.Fn, args, k)
		return
	}
	// dynamic call of an unknown function value: deterministic uninterpreted result
	sig := com.Signature()
	vf, _ := fv.(VFunc)
	ft := e.funcTerm(vf)
	x.safety(st, c, "nil", Not(Eq(ft, e.ar.IConst(0))), "called function value is non-nil")
	var flat []*Term
	flat = append(flat, ft)
	for i, a := range args {
		flat = append(flat, e.toLeaves(com.Args[i].Type(), a)...)
	}
	var rs []Val
	for i := 0; i < sig.Results().Len(); i++ {
		rt := sig.Results().At(i).Type()
		ls := e.leaves(rt)
		ts := make([]*Term, len(ls))
		for j, l := range ls {
			ts[j] = App(fmt.Sprintf("apply_%d_%d_%s", i, j, sortKey(l.S)), l.S, flat...)
		}
		rs = append(rs, e.fromLeaves(rt, ts))
	}
	e.assumptions["results of calls through function values are a deterministic function of the function value and its arguments; their side effects are not modelled"] = true
	k(st, x.resultOf(sig, rs))
}

// genericHeapUse: the body allocates or dereferences objects of a struct type that mentions a type parameter
func genericHeapUse(fn *ssa.Function) bool {
	var mentions func(t types.Type, depth int) bool
	mentions = func(t types.Type, depth int) bool {
		if depth > 4 {
			return false
		}
		switch u := t.(type) {
		case *types.TypeParam:
			return true
		case *types.Pointer:
			return mentions(u.Elem(), depth+1)
		case *types.Slice:
			return mentions(u.Elem(), depth+1)
		case *types.Named:
			if ta := u.TypeArgs(); ta != nil {
				for i := 0; i < ta.Len(); i++ {
					if mentions(ta.At(i), depth+1) {
						return true
					}
				}
			}
		}
		return false
	}
	for _, b := range fn.Blocks {
		for _, in := range b.Instrs {
			switch v := in.(type) {
			case *ssa.Alloc:
				if v.Heap && isStruct(v.Type().Underlying().(*types.Pointer).Elem()) && mentions(v.Type(), 0) {
					return true
				}
			case *ssa.FieldAddr:
				if mentions(v.X.Type(), 0) {
					return true
				}
			case *ssa.MakeSlice:
				if mentions(v.Type(), 0) {
					return true
				}
			}
		}
	}
	return false
}

func calleeShortName(c *ssa.Call) string {
	com := c.Common()
	if com.IsInvoke() {
		return com.Method.Name()
	}
	if f, ok := com.Value.(*ssa.Function); ok {
		return f.Name()
	}
	return ""
}

func sortKey(s *Sort) string {
	r := strings.NewReplacer("(", "", ")", "", " ", "", "_", "")
	return r.Replace(s.String())
}

func (x *Exec) onStack(st *State, fn *ssa.Function) bool {
	for f := st.ext().fr; f != nil; f = f.parent {
		if f.fn == fn {
			return true
		}
	}
	return false
}

func (x *Exec) staticCall(st *State, c *ssa.Call, fn *ssa.Function, args []Val, k func(st *State, res Val)) {
	e := x.e
	name := fn.String()
	if fn.Origin() != nil {
		name = fn.Origin().String()
	}
	if x.initMode && fn.Name() == "init" && fn.Signature.Recv() == nil {
		k(st, nil)
		return
	}
	if x.intrinsic(st, c, name, fn, args, k) {
		return
	}
	// instantiation wrappers / thunks: follow to the generic origin
	target := fn
	if fn.Origin() != nil && len(fn.Blocks) == 0 {
		target = fn.Origin()
	}
	if (x.pure > 0 || funcPkgPath(target) == specPkgPath) && !x.initMode && len(target.Blocks) > 0 && e.specFor(target) == nil && e.isRecursive(target) {
		k(st, x.ufCall(st, st.heap, target, args))
		return
	}
	spec := e.specFor(target)
	if spec != nil && !spec.Inline {
		x.applySpec(st, c, target, spec, target.Signature, args, k)
		return
	}
	if len(target.Blocks) > 0 && inlinable(target) && !e.hasLoops(target) && !x.onStack(st, target) && st.ext().depth < 16 {
		if target != fn && genericHeapUse(target) {
			// the origin body speaks about T[V] objects while the instantiated caller speaks about T[int]
			// objects: their fields live in different heap maps, so inlining would silently disconnect them
			x.fail("generic function %s allocates or accesses generic struct objects and is called from an instantiated context: it needs a contract", name)
		}
		sig := target.Signature
		x.pushFrame(st, target, args, func(st *State, rs []Val) { k(st, x.resultOf(sig, rs)) })
		x.runBlock(st, target.Blocks[0], nil)
		return
	}
	// unknown callee: results unconstrained; heap effects not modelled
	if x.pure == 0 {
		e.note("call to %s has no contract and cannot be inlined: results havocked", name)
	}
	sig := fn.Signature
	var rs []Val
	for i := 0; i < sig.Results().Len(); i++ {
		rs = append(rs, x.freshVal(st, sig.Results().At(i).Type(), "unk"))
	}
	x.safety(st, c, "call", False, "callee "+name+" needs a contract (has loops / recursion / no body)")
	k(st, x.resultOf(sig, rs))
}

func (x *Exec) intrinsic(st *State, c *ssa.Call, name string, fn *ssa.Function, args []Val, k func(st *State, res Val)) bool {
	e := x.e
	switch name {
	case "math.Float64bits", "math.Float64frombits", "math.Float32bits", "math.Float32frombits":
		k(st, args[0])
		return true
	case "errors.New":
		ref := st.freshID("err")
		t := e.typeTagByName("*errors.errorString")
		// remember the message for Error()
		s := args[0].(VString)
		for i, l := range e.leaves(types.Typ[types.String]) {
			nm := "Gh_errtext_" + l.Name
			st.heapSet(nm, Store(st.heapGet(nm, e.fldSort(l.S)), ref, e.toLeaves(types.Typ[types.String], s)[i]))
		}
		k(st, VIface{Tag: e.ar.IConst(int64(t)), Ref: ref})
		return true
	case "fmt.Errorf":
		ref := st.freshID("err")
		tag := e.fresh("errtag", e.ar.I())
		st.assume(Or(Eq(tag, e.ar.IConst(int64(e.typeTagByName("*fmt.wrapError")))), Eq(tag, e.ar.IConst(int64(e.typeTagByName("*fmt.fmtError"))))))
		k(st, VIface{Tag: tag, Ref: ref})
		return true
	case "fmt.Sprintf", "fmt.Sprint":
		k(st, x.freshVal(st, types.Typ[types.String], "sprintf"))
		return true
	}
	return false
}

func (e *Engine) typeTagByName(n string) int {
	if id, ok := e.typeTags[n]; ok {
		return id
	}
	id := len(e.typeTags) + 1
	e.typeTags[n] = id
	e.tagTypes = append(e.tagTypes, nil)
	return id
}

// ---------------------------------------------------------------------------------
// builtins

func (x *Exec) builtin(st *State, c *ssa.Call, b *ssa.Builtin, argv []ssa.Value, args []Val, k func(st *State, res Val)) {
	e := x.e
	switch b.Name() {
	case "len":
		switch v := args[0].(type) {
		case VSlice:
			k(st, VScalar{v.Len})
		case VString:
			k(st, VScalar{v.Len})
		case VRef:
			ml := SelectD(st.heapGet("MapLen", e.fldSort(e.ar.I())), v.T)
			st.assume(And(e.ar.Cmp(token.LEQ, tInt, e.ar.IConst(0), ml), e.ar.Cmp(token.LEQ, tInt, ml, e.ar.Const(tInt, bigPow2(47)))))
			k(st, VScalar{ml})
		default:
			x.fail("len of %T", v)
		}
	case "cap":
		k(st, VScalar{args[0].(VSlice).Cap})
	case "copy":
		x.copyBuiltin(st, c, argv, args, k)
	case "append":
		x.appendBuiltin(st, c, argv, args, k)
	case "Add": // unsafe.Add
		p := args[0].(VPtr)
		if p.Reg == nil {
			x.fail("unsafe.Add on non-region pointer")
		}
		it, _ := numOf(argv[1].Type())
		d := e.ar.Conv(it, tInt, args[1].(VScalar).T)
		np := p
		np.Idx = e.ar.Bin(token.ADD, tInt, p.Idx, d)
		k(st, np)
	case "SliceData":
		s := args[0].(VSlice)
		k(st, VPtr{Reg: s.Reg, Idx: s.Off})
	case "StringData":
		s := args[0].(VString)
		// the string's bytes as a (read-only) region: region s.Reg holds s.Arr
		st.assume(Eq(st.regionArr(byteType, s.Reg), s.Arr))
		k(st, VPtr{Reg: s.Reg, Idx: s.Off})
	case "String": // unsafe.String(ptr, len)
		p := args[0].(VPtr)
		it, _ := numOf(argv[1].Type())
		n := e.ar.Conv(it, tInt, args[1].(VScalar).T)
		if p.Reg == nil {
			x.fail("unsafe.String on non-region pointer")
		}
		k(st, VString{Reg: p.Reg, Arr: st.regionArr(byteType, p.Reg), Off: p.Idx, Len: n})
	case "Slice": // unsafe.Slice(ptr, len)
		p := args[0].(VPtr)
		it, _ := numOf(argv[1].Type())
		n := e.ar.Conv(it, tInt, args[1].(VScalar).T)
		if p.Reg == nil {
			x.fail("unsafe.Slice on non-region pointer")
		}
		k(st, VSlice{Reg: p.Reg, Off: p.Idx, Len: n, Cap: n})
	case "ssa:wrapnilchk":
		k(st, args[0])
	case "ssa:deferstack":
		k(st, VScalar{e.ar.IConst(0)})
	case "min", "max":
		t := argv[0].Type()
		n, _ := numOf(t)
		r := args[0].(VScalar).T
		for _, a := range args[1:] {
			y := a.(VScalar).T
			if b.Name() == "min" {
				r = Ite(e.ar.Cmp(token.LSS, n, y, r), y, r)
			} else {
				r = Ite(e.ar.Cmp(token.GTR, n, y, r), y, r)
			}
		}
		k(st, VScalar{r})
	case "print", "println":
		k(st, nil)
	case "delete":
		m := args[0].(VRef)
		ml := st.heapGet("MapLen", e.fldSort(e.ar.I()))
		nl := e.fresh("maplen", e.ar.I())
		old := SelectD(ml, m.T)
		st.assume(Or(Eq(nl, old), Eq(nl, e.ar.Bin(token.SUB, tInt, old, e.ar.IConst(1)))))
		st.heapSet("MapLen", Store(ml, m.T, nl))
		k(st, nil)
	default:
		x.fail("unsupported builtin %s", b.Name())
	}
}

// copyRange installs into region dst the elements [dlo, dlo+n) taken from array src at [slo, slo+n)
// (memmove semantics: src is the array as it was before the call).
func (x *Exec) copyRange(st *State, elem types.Type, dreg, dlo, n *Term, src, slo *Term) {
	e := x.e
	ls := e.leaves(elem)
	if len(ls) != 1 {
		x.fail("copy of multi-leaf element type %s unsupported", elem)
	}
	old := st.regionArr(elem, dreg)
	if n.IsConst() && n.Val.IsInt64() && n.Val.Int64() <= 16 {
		cur := old
		for i := int64(0); i < n.Val.Int64(); i++ {
			ki := e.ar.IConst(i)
			cur = Store(cur, e.ar.Bin(token.ADD, tInt, dlo, ki), SelectD(src, e.ar.Bin(token.ADD, tInt, slo, ki)))
		}
		st.setRegionArr(elem, dreg, cur)
		return
	}
	na := e.fresh("cp", old.S)
	kv := Var("$b_kcp", e.ar.I())
	in := And(e.ar.Cmp(token.LEQ, tInt, dlo, kv), e.ar.Cmp(token.LSS, tInt, kv, e.ar.Bin(token.ADD, tInt, dlo, n)))
	srcIdx := e.ar.Bin(token.ADD, tInt, slo, e.ar.Bin(token.SUB, tInt, kv, dlo))
	sel := Select(na, kv)
	st.assume(Forall([]*Term{kv}, Eq(sel, Ite(in, Select(src, srcIdx), Select(old, kv))), sel))
	st.setRegionArr(elem, dreg, na)
}

func (x *Exec) copyBuiltin(st *State, c *ssa.Call, argv []ssa.Value, args []Val, k func(st *State, res Val)) {
	e := x.e
	dst := args[0].(VSlice)
	elem := argv[0].Type().Underlying().(*types.Slice).Elem()
	var srcArr, srcOff, srcLen *Term
	switch s := args[1].(type) {
	case VSlice:
		srcArr, srcOff, srcLen = st.regionArr(elem, s.Reg), s.Off, s.Len
	case VString:
		srcArr, srcOff, srcLen = s.Arr, s.Off, s.Len
	default:
		x.fail("copy from %T", s)
	}
	n := Ite(e.ar.Cmp(token.LSS, tInt, srcLen, dst.Len), srcLen, dst.Len)
	if n.Op == "ite" {
		nv := e.fresh("ncopy", e.ar.I())
		st.assume(Eq(nv, n))
		st.assume(And(e.ar.Cmp(token.LEQ, tInt, e.ar.IConst(0), nv), e.ar.Cmp(token.LEQ, tInt, nv, dst.Len), e.ar.Cmp(token.LEQ, tInt, nv, srcLen)))
		n = nv
	}
	x.checkAssignRange(st, c, elem, dst.Reg, dst.Off, e.ar.Bin(token.ADD, tInt, dst.Off, n))
	x.copyRange(st, elem, dst.Reg, dst.Off, n, srcArr, srcOff)
	k(st, VScalar{n})
}

func (x *Exec) appendBuiltin(st *State, c *ssa.Call, argv []ssa.Value, args []Val, k func(st *State, res Val)) {
	e := x.e
	s := args[0].(VSlice)
	elem := argv[0].Type().Underlying().(*types.Slice).Elem()
	multi := len(e.leavesOrStruct(elem)) != 1
	var srcArr, srcOff, n *Term
	var srcSlice *VSlice
	switch t := args[1].(type) {
	case VSlice:
		if !multi {
			srcArr = st.regionArr(elem, t.Reg)
		}
		srcOff, n = t.Off, t.Len
		srcSlice = &t
	case VString:
		srcArr, srcOff, n = t.Arr, t.Off, t.Len
	default:
		x.fail("append of %T", t)
	}
	newLen := e.ar.Bin(token.ADD, tInt, s.Len, n)
	fits := e.ar.Cmp(token.LEQ, tInt, newLen, s.Cap)
	// in-place
	st2 := x.cloneState(st)
	st.assume(fits)
	st.br = append(st.br, fits)
	if !st.inconsistentQuick() {
		lo := e.ar.Bin(token.ADD, tInt, s.Off, s.Len)
		x.checkAssignRange(st, c, elem, s.Reg, lo, e.ar.Bin(token.ADD, tInt, lo, n))
		if multi {
			x.copyElems(st, elem, s.Reg, lo, n, srcSlice)
		} else {
			x.copyRange(st, elem, s.Reg, lo, n, srcArr, srcOff)
		}
		// appending to a nil slice with n == 0 keeps nil; with cap 0 and n > 0 never "fits"
		k(st, VSlice{Reg: s.Reg, Off: s.Off, Len: newLen, Cap: s.Cap})
	}
	x.dropState(st)
	// reallocation
	st = st2
	st.assume(Not(fits))
	st.br = append(st.br, Not(fits))
	reg := st.freshID("app")
	ncap := e.fresh("ncap", e.ar.I())
	st.assume(And(e.ar.Cmp(token.LEQ, tInt, newLen, ncap), e.ar.Cmp(token.LEQ, tInt, ncap, e.ar.Const(tInt, bigPow2(47))), Eq(e.rsize(reg), ncap)))
	z := e.ar.IConst(0)
	if multi {
		x.copyElems(st, elem, reg, z, s.Len, &s)
		x.copyElems(st, elem, reg, s.Len, n, srcSlice)
	} else {
		old := st.regionArr(elem, s.Reg)
		x.copyRange(st, elem, reg, z, s.Len, old, s.Off)
		x.copyRange(st, elem, reg, s.Len, n, srcArr, srcOff)
	}
	k(st, VSlice{Reg: reg, Off: z, Len: newLen, Cap: ncap})
	x.dropState(st)
}

func (e *Engine) leavesOrStruct(t types.Type) []Leaf {
	if isStruct(t) {
		return []Leaf{{}, {}}
	}
	return e.leaves(t)
}

// copyElems copies n elements of a multi-leaf / struct element type
func (x *Exec) copyElems(st *State, elem types.Type, dreg, dlo, n *Term, src *VSlice) {
	e := x.e
	if src == nil {
		x.fail("copyElems without source slice")
	}
	if n.IsConst() && n.Val.IsInt64() && n.Val.Int64() <= 4 {
		for i := int64(0); i < n.Val.Int64(); i++ {
			ki := e.ar.IConst(i)
			v := st.loadElem(elem, src.Reg, e.ar.Bin(token.ADD, tInt, src.Off, ki))
			st.storeElem(elem, dreg, e.ar.Bin(token.ADD, tInt, dlo, ki), v)
		}
		return
	}
	if isStruct(elem) {
		// elements of a struct slice are objects elemref(region, index); their fields live in the
		// per-field maps. A bulk copy rewrites, for every field, exactly the destination objects.
		sty := elem.Underlying().(*types.Struct)
		I := e.ar.I()
		for fi := 0; fi < sty.NumFields(); fi++ {
			ft := sty.Field(fi).Type()
			if isStruct(ft) {
				x.fail("bulk copy of struct elements with nested struct fields unsupported")
			}
			for _, l := range e.leaves(ft) {
				name := fldName(elem, sty.Field(fi).Name(), l.Name)
				m := st.heapGet(name, e.fldSort(l.S))
				nm := st.heapHavoc(name, e.fldSort(l.S))
				r := Var("$b_rcp", I)
				idx := App("elemref_idx", I, r)
				isDst := And(Eq(App("elemref_reg", I, r), dreg), e.ar.Cmp(token.LEQ, tInt, dlo, idx), e.ar.Cmp(token.LSS, tInt, idx, e.ar.Bin(token.ADD, tInt, dlo, n)), Eq(r, e.elemRef(dreg, idx)))
				srcRef := e.elemRef(src.Reg, e.ar.Bin(token.ADD, tInt, src.Off, e.ar.Bin(token.SUB, tInt, idx, dlo)))
				st.assume(Forall([]*Term{r}, Eq(Select(nm, r), Ite(isDst, Select(m, srcRef), Select(m, r))), Select(nm, r)))
			}
		}
		return
	}
	for _, l := range e.leaves(elem) {
		name := memName(elem, l.Name)
		m := st.heapGet(name, e.memSort(l.S))
		old := SelectD(m, dreg)
		srcA := SelectD(m, src.Reg)
		na := e.fresh("cpm", old.S)
		kv := Var("$b_kcp", e.ar.I())
		in := And(e.ar.Cmp(token.LEQ, tInt, dlo, kv), e.ar.Cmp(token.LSS, tInt, kv, e.ar.Bin(token.ADD, tInt, dlo, n)))
		srcIdx := e.ar.Bin(token.ADD, tInt, src.Off, e.ar.Bin(token.SUB, tInt, kv, dlo))
		sel := Select(na, kv)
		st.assume(Forall([]*Term{kv}, Eq(sel, Ite(in, Select(srcA, srcIdx), Select(old, kv))), sel))
		st.heapSet(name, Store(m, dreg, na))
	}
}

// inconsistentQuick: purely syntactic check (a false assumption)
func (st *State) inconsistentQuick() bool {
	for _, p := range st.pc {
		if p.IsFalse() {
			return true
		}
	}
	return false
}

// ---------------------------------------------------------------------------------
// interface invokes

func (x *Exec) invoke(st *State, c *ssa.Call, com *ssa.CallCommon, recv Val, args []Val, k func(st *State, res Val)) {
	e := x.e
	iv, ok := recv.(VIface)
	if !ok {
		// type-parameter receiver holding a concrete symbolic value
		if s, ok2 := recv.(VScalar); ok2 {
			iv = VIface{Tag: e.ar.IConst(0), Ref: s.T}
			_ = iv
		}
	}
	if _, isTP := com.Value.Type().(*types.TypeParam); !isTP {
		x.safety(st, c, "nil", Not(Eq(iv.Tag, e.ar.IConst(0))), "interface receiver is non-nil")
	}
	// statically known dynamic type: resolve the method
	if iv.Tag.IsConst() && iv.Tag.Val.IsInt64() {
		id := int(iv.Tag.Val.Int64())
		if id >= 1 && id <= len(e.tagTypes) && e.tagTypes[id-1] != nil {
			dt := e.tagTypes[id-1]
			ms := e.prog.MethodSets.MethodSet(dt)
			if sel := ms.Lookup(com.Method.Pkg(), com.Method.Name()); sel != nil {
				if fn := e.prog.MethodValue(sel); fn != nil {
					rv := x.unbox(st, dt, iv.Ref)
					// wrappers for promoted / value methods have bodies that we can inline
					x.staticCall(st, c, fn, append([]Val{rv}, args...), k)
					return
				}
			}
		}
	}
	spec := e.ifaceSpec(com.Value.Type(), com.Method.Name())
	sig := com.Signature()
	if os.Getenv("GOVC_DEBUG") != "" {
		fmt.Fprintf(os.Stderr, "invoke %s.%s spec=%v impls=%d pure=%d const=%v\n", com.Value.Type(), com.Method.Name(), spec != nil, func() int { if spec == nil { return -1 }; return len(spec.Impls) }(), x.pure, iv.Tag.IsConst())
	}
	if spec != nil && len(spec.Impls) > 0 && x.pure == 0 && !iv.Tag.IsConst() {
		// known implementations are dispatched by case analysis on the dynamic type
		var rest []*Term
		for _, ie := range spec.Impls {
			env := &Env{x: x, st: st, heap: st.heap, old: st.heap, vars: map[string]TV{}, ovars: map[string]TV{}}
			if tp := e.tpkgs[spec.Pkg]; tp != nil {
				env.pkg = tp.Types
			}
			t := env.typeExpr(ie)
			cond := Eq(iv.Tag, e.ar.IConst(int64(e.typeTag(t))))
			x.paths++
			if x.paths > x.e.maxPaths {
				x.fail("path limit %d exceeded", x.e.maxPaths)
			}
			st2 := x.cloneState(st)
			st2.assume(cond)
			st2.br = append(st2.br, cond)
			x.invoke(st2, c, com, VIface{Tag: e.ar.IConst(int64(e.typeTag(t))), Ref: iv.Ref}, args, k)
			x.dropState(st2)
			rest = append(rest, Not(cond))
		}
		nc := And(rest...)
		st.assume(nc)
		st.br = append(st.br, nc)
	}
	if spec == nil {
		if x.pure == 0 {
			e.note("interface method %s.%s has no contract: results havocked", com.Value.Type(), com.Method.Name())
		}
		x.safety(st, c, "call", False, fmt.Sprintf("interface method %s.%s needs an iface contract", com.Value.Type(), com.Method.Name()))
		var rs []Val
		for i := 0; i < sig.Results().Len(); i++ {
			rs = append(rs, x.freshVal(st, sig.Results().At(i).Type(), "unk"))
		}
		k(st, x.resultOf(sig, rs))
		return
	}
	x.applySpecNamed(st, c, nil, spec, sig, "self", com.Value.Type(), append([]Val{iv}, args...), k)
}

// ---------------------------------------------------------------------------------
// contract application

func (x *Exec) applySpec(st *State, c *ssa.Call, fn *ssa.Function, spec *FuncSpec, sig *types.Signature, args []Val, k func(st *State, res Val)) {
	x.applySpecNamed(st, c, fn, spec, sig, "", nil, args, k)
}

func paramNames(fn *ssa.Function, spec *FuncSpec, sig *types.Signature, recvName string) ([]string, []types.Type) {
	var names []string
	var typs []types.Type
	if fn != nil && len(fn.Params) > 0 {
		off := 0
		if fn.Signature.Recv() != nil {
			off = 1
		}
		for i, p := range fn.Params {
			n := p.Name()
			if spec != nil && i >= off && i-off < len(spec.Params) {
				n = spec.Params[i-off]
			}
			names = append(names, n)
			typs = append(typs, p.Type())
		}
		return names, typs
	}
	if recvName != "" {
		names = append(names, recvName)
		typs = append(typs, nil)
	} else if sig.Recv() != nil {
		n := sig.Recv().Name()
		if n == "" || n == "_" {
			n = "self"
		}
		names = append(names, n)
		typs = append(typs, sig.Recv().Type())
	}
	for i := 0; i < sig.Params().Len(); i++ {
		n := sig.Params().At(i).Name()
		if spec != nil && i < len(spec.Params) {
			n = spec.Params[i]
		}
		if n == "" || n == "_" {
			n = fmt.Sprintf("arg%d", i)
		}
		names = append(names, n)
		typs = append(typs, sig.Params().At(i).Type())
	}
	return names, typs
}

func resultNames(spec *FuncSpec, sig *types.Signature) []string {
	var out []string
	for i := 0; i < sig.Results().Len(); i++ {
		n := sig.Results().At(i).Name()
		if spec != nil && i < len(spec.Results) {
			n = spec.Results[i]
		}
		if n == "" || n == "_" {
			n = fmt.Sprintf("ret%d", i)
		}
		out = append(out, n)
	}
	return out
}

func (x *Exec) specPkg(spec *FuncSpec) *types.Package {
	if tp := x.e.tpkgs[spec.Pkg]; tp != nil {
		return tp.Types
	}
	return nil
}

func (x *Exec) applySpecNamed(st *State, c *ssa.Call, fn *ssa.Function, spec *FuncSpec, sig *types.Signature, recvName string, recvType types.Type, args []Val, k func(st *State, res Val)) {
	e := x.e
	names, typs := paramNames(fn, spec, sig, recvName)
	if len(names) != len(args) {
		x.fail("contract %s: %d parameter names for %d arguments", spec.Key, len(names), len(args))
	}
	if recvType != nil {
		typs[0] = recvType
	}
	calleeName := spec.Key
	if fn != nil {
		calleeName = e.qualName(fn)
	}
	if spec.Trusted || spec.Kind != "func" {
		e.trustedUsed[spec.Kind+" "+spec.Key] = true
	}
	vars := map[string]TV{}
	for i, n := range names {
		vars[n] = TV{V: args[i], T: typs[i]}
	}
	pre := copyHeap(st.heap)
	env := &Env{x: x, st: st, heap: st.heap, old: pre, vars: vars, ovars: vars, pkg: x.specPkg(spec)}
	for _, l := range spec.Lets {
		tv := x.evalTV(env, l.E, "let "+l.Name+" in contract of "+spec.Key)
		env = env.with(l.Name, tv)
	}
	callOrd := 0
	if c != nil {
		callOrd = x.ordinal(c, "call")
	}
	if fn != nil && fn.Signature.Recv() != nil && !spec.NilRecv && len(args) > 0 {
		if r, ok := args[0].(VRef); ok && !(r.T.Op == "app" && strings.HasPrefix(r.T.Name, "sub_")) {
			x.oblige(st, fmt.Sprintf("%s/pre@%s#%d.recv", x.qname, calleeName, callOrd), "pre", Not(Eq(r.T, e.ar.IConst(0))), "receiver of "+calleeName+" is non-nil", x.posOf(c), nil)
		}
	}
	for _, cl := range spec.Requires {
		g := x.evalClause(st, env, cl, spec)
		if !x.primary && x.top != nil && x.pure == 0 {
			st.assume(g)
			continue
		}
		nm := fmt.Sprintf("%s/pre@%s#%d.%d", x.qname, calleeName, callOrd, cl.Ord)
		if fr := st.ext().fr; fr.parent != nil {
			nm = fmt.Sprintf("%s/pre@%s@%s#%d.%d", x.qname, calleeName, e.qualName(fr.fn), callOrd, cl.Ord)
		}
		x.oblige(st, nm, "pre", g, "precondition of "+calleeName+": "+cl.Text, x.posOf(c), nil)
	}
	// termination of recursion
	if x.primary && fn != nil && x.top != nil && (fn == x.top || (x.top.Origin() != nil && fn == x.top.Origin())) && spec.Decreases != nil && x.measure0 != nil && st.ext().fr.parent == nil {
		m := x.evalTerm(st, env, spec.Decreases)
		var g *Term
		if m.S.K == SBV {
			g = And(BVCmp("bvsle", ConstI(m.S, 0), m), BVCmp("bvslt", m, x.measure0))
		} else {
			g = And(IntCmp("<=", ConstI(m.S, 0), m), IntCmp("<", m, x.measure0))
		}
		x.oblige(st, fmt.Sprintf("%s/decreases#%d", x.qname, callOrd), "decreases", g, "recursive call decreases "+spec.Decreases.Text, x.posOf(c), nil)
	}
	// vacuity guard: the callee's (assumed) postcondition must not make a reachable state unreachable
	coverName := ""
	if x.primary && x.pure == 0 && !st.dead && x.top != nil && !x.initMode {
		// contracts that are assumed rather than verified (extern, iface, trusted) get two probes per
		// caller, verified function contracts one
		lim := 1
		if spec.Kind != "func" || spec.Trusted {
			lim = 2
		}
		for _, cl := range spec.Ensures {
			if cl.trusted() {
				lim = 2
			}
		}
		if x.callCovers == nil {
			x.callCovers = map[string]int{}
		}
		if x.callCovers[calleeName] < lim {
			x.callCovers[calleeName]++
			coverName = fmt.Sprintf("%s/cover-call@%s#%d.%d", x.qname, calleeName, callOrd, x.callCovers[calleeName])
			x.addCover(st, coverName+"/before", "the call to "+calleeName+" is reachable")
		}
	}
	// frame: havoc what the callee may assign
	x.modelHandles = nil
	// all targets are evaluated in the pre-state before anything is havocked
	aenv := *env
	aenv.heap = pre
	var allLocs []assignLoc
	for _, a := range spec.Assigns {
		allLocs = append(allLocs, x.evalAssignTarget(&aenv, a, spec)...)
	}
	for _, loc := range allLocs {
		x.checkLocAssignable(st, c, loc, calleeName)
	}
	for _, loc := range allLocs {
		x.havocLoc(st, loc)
	}
	// results
	rnames := resultNames(spec, sig)
	var rs []Val
	post := map[string]TV{}
	for k2, v := range vars {
		post[k2] = v
	}
	for i, n := range rnames {
		rt := sig.Results().At(i).Type()
		v := x.freshResult(st, rt, "r_"+n)
		x.markAllocated(st, rt, v)
		rs = append(rs, v)
		post[n] = TV{V: v, T: rt}
	}
	if len(rs) == 1 {
		post["ret"] = post[rnames[0]]
	}
	penv := &Env{x: x, st: st, heap: st.heap, old: pre, vars: post, ovars: vars, pkg: x.specPkg(spec)}
	for _, l := range spec.Lets {
		// lets are evaluated in the pre-state
		lenv := &Env{x: x, st: st, heap: pre, old: pre, vars: penv.vars, ovars: vars, pkg: penv.pkg}
		tv := x.evalTV(lenv, l.E, "let "+l.Name)
		penv = penv.with(l.Name, tv)
	}
	for _, cl := range spec.Ensures {
		if x.group != "" && cl.group() != "" && cl.group() != x.group {
			continue // clause groups: a pass uses the callee's clauses of the same group only
		}
		st.assume(x.evalClause(st, penv, cl, spec))
	}
	// objects reached only through interface contracts keep their type's history constraint
	seenMH := map[string]bool{}
	for _, mh := range x.modelHandles {
		if seenMH[mh.ref.Key()] {
			continue
		}
		seenMH[mh.ref.Key()] = true
		if c, cenv := x.constraintFor(st, mh.dt, VRef{mh.ref}, pre); c != nil {
			st.assume(x.evalClause(st, cenv, c, spec))
		}
	}
	x.modelHandles = nil
	if coverName != "" {
		x.addCover(st, coverName+"/after", "the contract of "+calleeName+" leaves the call site's state satisfiable")
	}
	k(st, x.resultOf(sig, rs))
}

func (x *Exec) addCover(st *State, name, text string) {
	cov := &Obligation{Name: name, Func: x.qname, Kind: "cover", Text: text, Mode: x.e.ar.Mode,
		Goal: False, Assume: st.pc[:len(st.pc):len(st.pc)], Cover: true, Path: strings.Join(st.trace, ">")}
	x.e.mu.Lock()
	x.e.obligations = append(x.e.obligations, cov)
	x.e.mu.Unlock()
}

// markAllocated: identities returned by a callee are allocated afterwards
func (x *Exec) markAllocated(st *State, t types.Type, v Val) {
	var ids []*Term
	switch u := v.(type) {
	case VSlice:
		ids = append(ids, u.Reg)
	case VRef:
		ids = append(ids, u.T)
	case VIface:
		ids = append(ids, u.Ref)
	case VPtr:
		if u.Reg != nil {
			ids = append(ids, u.Reg)
		}
	}
	for _, id := range ids {
		a := st.heapGet("Alloc", st.allocSort())
		st.heapSet("Alloc", Store(a, id, True))
	}
}

// ---------------------------------------------------------------------------------
// pure calls (spec functions)

type pureOutcome struct {
	cond *Term
	v    Val
	st   *State
	br   []*Term
}

func (x *Exec) pureCall(st *State, heap map[string]*Term, fn *ssa.Function, args []Val) Val {
	e := x.e
	if len(fn.Blocks) == 0 {
		x.fail("spec function %s has no body", fn.Name())
	}
	if e.isRecursive(fn) {
		return x.ufCall(st, heap, fn, args)
	}
	outs := x.runPure(st, heap, fn, args)
	if len(outs) == 0 {
		x.fail("spec function %s has no return path", fn.Name())
	}
	rt := fn.Signature.Results().At(0).Type()
	return mergeOutcomes(e, rt, outs, 0)
}

// mergeOutcomes rebuilds the decision tree of a pure execution: outcomes arrive in DFS order,
// each with the list of branch conditions taken; siblings differ first at one condition
// (c on one side, not c on the other), so every condition appears once in the result.
func mergeOutcomes(e *Engine, rt types.Type, outs []pureOutcome, depth int) Val {
	if len(outs) == 1 {
		return outs[0].v
	}
	// find the first depth at which the outcomes disagree
	for {
		if depth >= len(outs[0].br) {
			return outs[0].v
		}
		c := outs[0].br[depth]
		same := true
		for _, o := range outs[1:] {
			if depth >= len(o.br) || o.br[depth] != c {
				same = false
				break
			}
		}
		if !same {
			break
		}
		depth++
	}
	c := outs[0].br[depth]
	k := 1
	for k < len(outs) && depth < len(outs[k].br) && outs[k].br[depth] == c {
		k++
	}
	if k == len(outs) {
		return outs[0].v
	}
	left := mergeOutcomes(e, rt, outs[:k], depth+1)
	right := mergeOutcomes(e, rt, outs[k:], depth+1)
	return iteVal(e, rt, c, left, right)
}

func (x *Exec) runPure(st *State, heap map[string]*Term, fn *ssa.Function, args []Val) []pureOutcome {
	sub := &State{e: x.e, heap: copyHeap(heap), cells: map[cellKey]Val{}}
	stExt[sub] = &stateExt{}
	var outs []pureOutcome
	x.pure++
	savedTop := x.retCount
	x.pushFrame(sub, fn, args, func(s *State, rs []Val) {
		outs = append(outs, pureOutcome{cond: And(s.br...), v: rs[0], st: s, br: append([]*Term{}, s.br...)})
	})
	x.runBlock(sub, fn.Blocks[0], nil)
	x.pure--
	x.retCount = savedTop
	// carry over definitional assumptions (facts about fresh names)
	seen := map[*Term]bool{}
	for _, p := range st.pc {
		seen[p] = true
	}
	for _, o := range outs {
		isBr := map[*Term]bool{}
		for _, b := range o.st.br {
			isBr[b] = true
		}
		for _, p := range o.st.pc {
			if !isBr[p] && !seen[p] && !(p.Op == "not" && isBr[p.Args[0]]) {
				seen[p] = true
				st.assume(p)
			}
		}
		delete(stExt, o.st)
	}
	delete(stExt, sub)
	return outs
}

// inlinable: callees without a contract are inlined only if they belong to the module under
// verification or to a small set of dependency packages whose code is simple byte twiddling;
// everything else needs an extern contract.
func inlinable(fn *ssa.Function) bool {
	pp := funcPkgPath(fn)
	if strings.HasPrefix(pp, modulePath) {
		return true
	}
	switch pp {
	case "encoding/binary", "math", "math/bits":
		return true
	}
	return false
}
