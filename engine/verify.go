package main

// Verification of one function against its contract.

import (
	"fmt"
	"go/token"
	"go/types"
	"sort"
	"strings"

	"golang.org/x/tools/go/ssa"
)

type Obligation struct {
	Name   string
	Func   string
	Kind   string
	Text   string
	Pos    string
	Tags   []string
	Mode   Mode
	Goal   *Term
	Assume []*Term
	Path   string
	// result
	Status string // unsat (discharged) | sat | unknown | timeout | error
	Solver string
	Time   float64
	Output string
	Model  string
	SMT    string
	Cover  bool // a reachability query: `sat`/`unknown` is the good answer
	Replay *ReplayInfo
	Clause *Clause
	RR     *ReplayResult
}

// VerifyFunc generates the obligations of one function under contract.
func (e *Engine) VerifyFunc(fn *ssa.Function, spec *FuncSpec, prop string) (err error) {
	gs := spec.groups()
	if len(gs) == 0 {
		return e.verifyFuncGroup(fn, spec, prop, "", true)
	}
	for i, g := range gs {
		if err := e.verifyFuncGroup(fn, spec, prop, g, i == 0); err != nil {
			return err
		}
	}
	return nil
}

func (e *Engine) verifyFuncGroup(fn *ssa.Function, spec *FuncSpec, prop, group string, primary bool) (err error) {
	// fresh names restart for every function so that the queries of a function do not depend
	// on which other functions are verified in the same run (reproducible solver behaviour)
	e.nfresh = 1000000
	e.ar.SideCond = nil
	if spec.ArithSet {
		e.ar.Mode = spec.Arith
	} else {
		e.ar.Mode = ModeBV
	}
	x := &Exec{e: e, top: fn, spec: spec, qname: e.qualName(fn), prop: prop, hasAssign: true, group: group, primary: primary}
	defer func() {
		if r := recover(); r != nil {
			switch v := r.(type) {
			case abortPath:
				err = fmt.Errorf("%s: %s", x.qname, v.why)
			case evalErr:
				err = fmt.Errorf("%s: contract evaluation: %s", x.qname, string(v))
			case opErr:
				err = fmt.Errorf("%s: %s", x.qname, string(v))
			default:
				panic(r)
			}
		}
	}()
	st := &State{e: e, heap: map[string]*Term{}, cells: map[cellKey]Val{}}
	stExt[st] = &stateExt{}
	defer delete(stExt, st)
	e.assumeGlobals(x, st, fn)

	// parameters
	vars := map[string]TV{}
	var args []Val
	for _, p := range fn.Params {
		v := x.freshVal(st, p.Type(), p.Name())
		if isUnsafePtr(p.Type()) {
			pv := v.(VPtr)
			pv.ByteView = true
			v = pv
			e.assumptions["unsafe.Pointer parameters point into byte regions"] = true
		}
		args = append(args, v)
		vars[p.Name()] = TV{V: v, T: p.Type()}
	}
	if recv := fn.Signature.Recv(); recv != nil && len(args) > 0 && !spec.NilRecv {
		if r, ok := args[0].(VRef); ok {
			st.assume(Not(Eq(r.T, e.ar.IConst(0))))
		}
	}
	x.replayInfo = &ReplayInfo{Fn: fn, Spec: spec, Globals: map[string]Val{}, GlobalT: map[string]types.Type{}}
	for i, p := range fn.Params {
		x.replayInfo.Params = append(x.replayInfo.Params, replayParam{Name: p.Name(), T: p.Type(), V: args[i]})
	}
	e.curExec = x
	defer func() { e.curExec = nil }()
	x.entryVars = map[string]Val{}
	x.entryTyp = map[string]types.Type{}
	for n, tv := range vars {
		x.entryVars[n] = tv.V
		x.entryTyp[n] = tv.T
	}
	env := &Env{x: x, st: st, heap: st.heap, old: st.heap, vars: vars, ovars: vars, pkg: x.specPkg(spec)}
	x.letVars = map[string]TV{}
	for _, l := range spec.Lets {
		tv := x.evalTV(env, l.E, "let "+l.Name)
		env = env.with(l.Name, tv)
		vars = env.vars
		x.letVars[l.Name] = tv
	}
	for _, cl := range spec.Requires {
		if x.active(cl) {
			st.assume(x.evalClause(st, env, cl, spec))
		}
	}
	for _, rname := range spec.Refines {
		is := e.refinedSpec(fn, rname)
		if is == nil {
			return fmt.Errorf("%s: refines %s: no such iface contract", x.qname, rname)
		}
		// own requires clauses are allowed only as representation invariants: each must be
		// re-established, i.e. appear among the ensures clauses too
		for _, rq := range spec.Requires {
			found := false
			for _, en := range spec.Ensures {
				if strings.Contains(strings.ReplaceAll(en.Text, " ", ""), strings.ReplaceAll(rq.Text, " ", "")) {
					found = true
				}
			}
			if !found {
				return fmt.Errorf("%s: requires %q of a method that refines an interface contract must be an invariant (repeated in an ensures clause)", x.qname, rq.Text)
			}
		}
		renv := x.refineEnv(st, fn, is, args, nil)
		for _, cl := range is.Requires {
			st.assume(x.evalClause(st, renv, cl, is))
		}
	}
	x.oldHeap = copyHeap(st.heap)
	env.old = x.oldHeap
	for _, h := range spec.Hints {
		if x.active(h) {
			x.applyHint(st, env, h)
		}
	}
	for _, a := range spec.Assigns {
		x.assignLocs = append(x.assignLocs, x.evalAssignTarget(env, a, spec)...)
	}
	if spec.Decreases != nil {
		x.measure0 = x.evalTerm(st, env, spec.Decreases)
	}
	// vacuity guard: the precondition must be satisfiable
	if primary {
	cov := &Obligation{Name: x.qname + "/cover-pre", Func: x.qname, Kind: "cover", Text: "precondition and global assumptions are satisfiable", Mode: e.ar.Mode,
		Goal: False, Assume: st.pc[:len(st.pc):len(st.pc)], Cover: true}
	e.mu.Lock()
	e.obligations = append(e.obligations, cov)
	e.mu.Unlock()
	}

	if len(fn.Blocks) == 0 {
		return fmt.Errorf("%s: no body", x.qname)
	}
	x.pushFrame(st, fn, args, nil)
	x.runBlock(st, fn.Blocks[0], nil)
	// return-reachability probes: up to 8 return paths, evenly spread over the explored ones
	// (the first paths of a depth-first exploration are often the infeasible corner cases)
	if n := len(x.retCovers); n > 0 {
		k := 5
		if n < k {
			k = n
		}
		e.mu.Lock()
		for i := 0; i < k; i++ {
			e.obligations = append(e.obligations, x.retCovers[i*n/k])
		}
		e.mu.Unlock()
	}
	if x.retCount == 0 && !spec.Trusted {
		e.note("%s: no return path was reached", x.qname)
	}
	return nil
}

func (x *Exec) envAt(st *State, fr *Frame) *Env {
	vars := map[string]TV{}
	if fr.parent == nil {
		for n, tv := range x.letVars {
			vars[n] = tv
		}
	}
	var pkg *types.Package
	if fr.fn.Pkg != nil {
		pkg = fr.fn.Pkg.Pkg
	} else if fr.fn.Origin() != nil && fr.fn.Origin().Pkg != nil {
		pkg = fr.fn.Origin().Pkg.Pkg
	}
	ov := map[string]TV{}
	if fr.parent == nil {
		for n, v := range x.entryVars {
			ov[n] = TV{V: v, T: x.entryTyp[n]}
		}
	}
	return &Env{x: x, st: st, heap: st.heap, old: x.oldHeap, vars: vars, ovars: ov, fr: fr, pkg: pkg}
}

// cellByName resolves a source variable name to the current value of its cell.
func (x *Exec) cellByName(st *State, fr *Frame, name string) (TV, bool) {
	var best *ssa.Alloc
	bestSeq := -1
	for a, seq := range fr.cellSeq {
		if a.Comment != name {
			continue
		}
		if _, ok := st.cells[cellKey{A: a, Frame: fr.id}]; !ok {
			continue
		}
		if seq > bestSeq {
			best, bestSeq = a, seq
		}
	}
	if best == nil {
		// escaping locals (including parameters whose address is taken): `new T (name)` values
		var bestH *ssa.Alloc
		for v := range fr.regs {
			if a, ok := v.(*ssa.Alloc); ok && a.Heap && a.Comment == name {
				if bestH == nil || a.Pos() > bestH.Pos() {
					bestH = a
				}
			}
		}
		if bestH != nil {
			t := bestH.Type().Underlying().(*types.Pointer).Elem()
			switch p := fr.regs[bestH].(type) {
			case VPtr:
				if p.Reg != nil {
					return TV{V: st.loadElem(t, p.Reg, p.Idx), T: t}, true
				}
			case VRef:
				return TV{V: p, T: bestH.Type()}, true
			}
		}
		for _, p := range fr.fn.Params {
			if p.Name() == name {
				return TV{V: fr.regs[p], T: p.Type()}, true
			}
		}
		return TV{}, false
	}
	t := best.Type().Underlying().(*types.Pointer).Elem()
	return TV{V: st.cells[cellKey{A: best, Frame: fr.id}], T: t}, true
}

func (x *Exec) evalTV(env *Env, ex Expr, what string) (tv TV) {
	defer func() {
		if r := recover(); r != nil {
			switch v := r.(type) {
			case evalErr:
				panic(evalErr(what + ": " + string(v)))
			case opErr:
				panic(evalErr(what + ": " + string(v)))
			}
			panic(r)
		}
	}()
	return env.eval(ex)
}

func (x *Exec) evalClause(st *State, env *Env, c *Clause, spec *FuncSpec) *Term {
	tv := x.evalTV(env, c.E, fmt.Sprintf("%s:%d %s %s", c.File, c.Line, c.Kind, c.Text))
	return env.boolOf(tv)
}

func (x *Exec) evalBool(st *State, env *Env, c *Clause) *Term {
	return x.evalClause(st, env, c, nil)
}

func (x *Exec) evalTerm(st *State, env *Env, c *Clause) *Term {
	tv := x.evalTV(env, c.E, fmt.Sprintf("%s:%d %s %s", c.File, c.Line, c.Kind, c.Text))
	tv = env.defaultType(tv)
	s, ok := tv.V.(VScalar)
	if !ok {
		panic(evalErr("scalar expected in " + c.Text))
	}
	if n, ok := numOf(tv.T); ok {
		return x.e.ar.Conv(n, tInt, s.T)
	}
	return s.T
}

// checkPost: postconditions at a return of the function under verification
func (x *Exec) checkPost(st *State, ret *ssa.Return, rs []Val) {
	sig := x.top.Signature
	names := resultNames(x.spec, sig)
	vars := map[string]TV{}
	for n, tv := range x.letVars {
		vars[n] = tv
	}
	for n, v := range x.entryVars {
		vars[n] = TV{V: v, T: x.entryTyp[n]}
	}
	for i, n := range names {
		vars[n] = TV{V: rs[i], T: sig.Results().At(i).Type()}
		vars[fmt.Sprintf("ret%d", i)] = vars[n]
	}
	if len(rs) == 1 {
		vars["ret"] = vars[names[0]]
	}
	ov := map[string]TV{}
	for n, v := range x.entryVars {
		ov[n] = TV{V: v, T: x.entryTyp[n]}
	}
	env := &Env{x: x, st: st, heap: st.heap, old: x.oldHeap, vars: vars, ovars: ov, pkg: x.specPkg(x.spec)}
	// vacuity guard: the first return paths are probed for satisfiability; a function none of
	// whose probed return paths is satisfiable proves nothing (contradictory assumptions)
	if x.primary && x.pure == 0 && !st.dead && len(x.retCovers) < 400 {
		cov := &Obligation{Name: x.qname + "/cover-return", Func: x.qname, Kind: "cover", Text: "a return of the function is reachable under the assumptions made", Mode: x.e.ar.Mode,
			Goal: False, Assume: st.pc[:len(st.pc):len(st.pc)], Cover: true, Path: strings.Join(st.trace, ">")}
		x.retCovers = append(x.retCovers, cov)
	}
	for _, c := range x.spec.Ensures {
		if !x.wantClause(c) || !x.active(c) || (c.group() == "" && !x.primary) {
			continue
		}
		if c.trusted() {
			x.e.assumptions["trusted clause (assumed, not proved) of "+x.qname+": "+c.Text] = true
			continue
		}
		g := x.evalClause(st, env, c, x.spec)
		x.curClause = c
		x.oblige(st, fmt.Sprintf("%s/post#%d", x.qname, c.Ord), "post", g, c.Text, fmt.Sprintf("%s:%d", c.File, c.Line), c.Tags)
		x.curClause = nil
	}
	// history constraint of the receiver's type (methods that refine interface contracts keep it)
	if x.primary && len(x.spec.Refines) > 0 && len(x.top.Params) > 0 {
		if c, cenv := x.constraintFor(st, x.top.Params[0].Type(), x.entryVars[x.top.Params[0].Name()], x.oldHeap); c != nil {
			g := x.evalClause(st, cenv, c, x.spec)
			x.oblige(st, x.qname+"/constraint", "constraint", g, "history constraint: "+c.Text, fmt.Sprintf("%s:%d", c.File, c.Line), nil)
		}
	}
	// behavioural refinement of interface contracts
	if x.primary {
		for _, rname := range x.spec.Refines {
			is := x.e.refinedSpec(x.top, rname)
			if is == nil {
				continue
			}
			var entryArgs []Val
			for _, p := range x.top.Params {
				entryArgs = append(entryArgs, x.entryVars[p.Name()])
			}
			renv := x.refineEnv(st, x.top, is, entryArgs, rs)
			for _, c := range is.Ensures {
				if containsStr(c.Tags, "ghostdef") {
					// the clause defines the new value of an unmodelled ghost field: always realizable
					continue
				}
				g := x.evalClause(st, renv, c, is)
				x.oblige(st, fmt.Sprintf("%s/refine@%s#%d", x.qname, rname, c.Ord), "refine", g, "refines "+rname+": "+c.Text, fmt.Sprintf("%s:%d", c.File, c.Line), nil)
			}
		}
	}
}

// ---------------------------------------------------------------------------------
// frames (assigns)

func splitTopLevel(s string) []string {
	var out []string
	depth := 0
	last := 0
	for i, c := range s {
		switch c {
		case '(', '[':
			depth++
		case ')', ']':
			depth--
		case ',':
			if depth == 0 {
				out = append(out, strings.TrimSpace(s[last:i]))
				last = i + 1
			}
		}
	}
	out = append(out, strings.TrimSpace(s[last:]))
	return out
}

// evalAssignTarget turns an assigns expression into locations (evaluated in the pre-state).
func (x *Exec) evalAssignTarget(env *Env, c *Clause, spec *FuncSpec) (locs []assignLoc) {
	e := x.e
	defer func() {
		if r := recover(); r != nil {
			if v, ok := r.(evalErr); ok {
				panic(evalErr(fmt.Sprintf("%s:%d assigns %s: %s", c.File, c.Line, c.Text, string(v))))
			}
			panic(r)
		}
	}()
	switch t := c.E.(type) {
	case EBinary:
		if t.Op == "==>" {
			// conditional location: assignable only when the guard holds in the pre-state
			g := env.boolOf(env.eval(t.X))
			cc := *c
			cc.E = t.Y
			locs := x.evalAssignTarget(env, &cc, spec)
			for i := range locs {
				locs[i].guard = And(locs[i].g(), g)
			}
			return locs
		}
	case EQuant:
		// forall k int :: cond(k) ==> k.$ghost : a set of keys of one ghost map
		if t.Forall && len(t.Vars) == 1 {
			if bb, ok := t.Body.(EBinary); ok && bb.Op == "==>" {
				if sel, ok := bb.Y.(ESel); ok && strings.HasPrefix(sel.Sel, "$") {
					if id, ok := sel.X.(EIdent); ok && id.Name == t.Vars[0].Name {
						e.nfresh++
						bv := Var(fmt.Sprintf("$b_%s_%d", id.Name, e.nfresh), e.ar.I())
						sub := *env
						sub.vars = map[string]TV{}
						for k, v := range env.vars {
							sub.vars[k] = v
						}
						sub.vars[id.Name] = TV{V: VScalar{bv}, T: types.Typ[types.Int]}
						sub.bound = append(append([]*Term{}, env.bound...), bv)
						cond := sub.boolOf(sub.eval(bb.X))
						return []assignLoc{{kind: "ghostset", text: sel.Sel, bv: bv, cond: cond}}
					}
				}
			}
		}
	case ESlice:
		b := env.eval(t.X)
		s, ok := b.V.(VSlice)
		if !ok {
			env.fail("assigns range of non-slice")
		}
		lo, hi := e.ar.IConst(0), s.Len
		if t.Lo != nil {
			lo = env.toInt(env.eval(t.Lo))
		}
		if t.Hi != nil {
			hi = env.toInt(env.eval(t.Hi))
		}
		elem := b.T.Underlying().(*types.Slice).Elem()
		return []assignLoc{{kind: "range", elemT: elem, reg: s.Reg, lo: e.ar.Bin(token.ADD, tInt, s.Off, lo), hi: e.ar.Bin(token.ADD, tInt, s.Off, hi), text: c.Text}}
	case EIndex:
		b := env.eval(t.X)
		s, ok := b.V.(VSlice)
		if !ok {
			env.fail("assigns element of non-slice")
		}
		i := env.toInt(env.eval(t.I))
		elem := b.T.Underlying().(*types.Slice).Elem()
		lo := e.ar.Bin(token.ADD, tInt, s.Off, i)
		return []assignLoc{{kind: "range", elemT: elem, reg: s.Reg, lo: lo, hi: e.ar.Bin(token.ADD, tInt, lo, e.ar.IConst(1)), text: c.Text}}
	case ESel:
		b := env.eval(t.X)
		if b.Pkg != "" {
			return []assignLoc{{kind: "global", text: c.Text}}
		}
		if strings.HasPrefix(t.Sel, "$") {
			if m, dt, ref := env.ghostModel(b, t.Sel); m != nil {
				if _, isPtr := dt.Underlying().(*types.Pointer); !isPtr {
					return nil // a constant model of a value type: nothing to assign
				}
				// assigning a model-defined ghost field means assigning the fields its definition reads
				elem := dt.Underlying().(*types.Pointer).Elem()
				sty := elem.Underlying().(*types.Struct)
				var locs []assignLoc
				x.modelHandles = append(x.modelHandles, modelHandle{dt, ref})
				// precise footprint: what the methods of this type that refine interface contracts may assign
				if rl, ok := x.refinerAssigns(env, dt, ref); ok {
					return rl
				}
				for _, fname := range modelFields(m.E) {
					locs = append(locs, x.fieldLocs(env, elem, sty, ref, fname, c.Text+" (model field ."+fname+")")...)
				}
				return locs
			}
			h := ghostHandle(b.V)
			if h == nil {
				env.fail("ghost field of a value without identity")
			}
			return []assignLoc{{kind: "ghost", ref: h, text: t.Sel}}
		}
		if sty, ok := isStructPtr(b.T); ok {
			elem := b.T.Underlying().(*types.Pointer).Elem()
			ref := b.V.(VRef).T
			return x.fieldLocs(env, elem, sty, ref, t.Sel, c.Text)
		}
		env.fail("assigns field of non-pointer")
	case EUnary:
		if t.Op == "*" {
			b := env.eval(t.X)
			if _, ok := isStructPtr(b.T); ok {
				elem := b.T.Underlying().(*types.Pointer).Elem()
				return []assignLoc{{kind: "object", sty: elem, ref: b.V.(VRef).T, text: c.Text}}
			}
			if p, ok := b.V.(VPtr); ok {
				if p.Reg != nil {
					elem := b.T.Underlying().(*types.Pointer).Elem()
					return []assignLoc{{kind: "range", elemT: elem, reg: p.Reg, lo: p.Idx, hi: e.ar.Bin(token.ADD, tInt, p.Idx, e.ar.IConst(1)), text: c.Text}}
				}
				if p.Cell != nil {
					pp := p
					return []assignLoc{{kind: "cell", cell: &pp, text: c.Text, elemT: b.T.Underlying().(*types.Pointer).Elem()}}
				}
			}
		}
	case EIdent:
		// a package-level variable
		return []assignLoc{{kind: "global", text: c.Text}}
	}
	env.fail("unsupported assigns target")
	return nil
}

func (x *Exec) fieldLocs(env *Env, elem types.Type, sty *types.Struct, ref *Term, sel, text string) []assignLoc {
	e := x.e
	for i := 0; i < sty.NumFields(); i++ {
		if sty.Field(i).Name() == sel {
			if isStruct(sty.Field(i).Type()) {
				return []assignLoc{{kind: "object", sty: sty.Field(i).Type(), ref: e.subRef(elem, i, ref), text: text}}
			}
			return []assignLoc{{kind: "field", sty: elem, field: i, ref: ref, text: text}}
		}
	}
	for i := 0; i < sty.NumFields(); i++ {
		if sty.Field(i).Embedded() {
			if fs, ok := sty.Field(i).Type().Underlying().(*types.Struct); ok {
				if r := x.tryFieldLocs(env, sty.Field(i).Type(), fs, e.subRef(elem, i, ref), sel, text); r != nil {
					return r
				}
			}
		}
	}
	env.fail("no field %s", sel)
	return nil
}

func (x *Exec) tryFieldLocs(env *Env, elem types.Type, sty *types.Struct, ref *Term, sel, text string) (r []assignLoc) {
	defer func() {
		if p := recover(); p != nil {
			if _, ok := p.(evalErr); ok {
				r = nil
				return
			}
			panic(p)
		}
	}()
	return x.fieldLocs(env, elem, sty, ref, sel, text)
}

// covered: the condition under which (elem region reg, index idx) / (object ref, field) may be written
func (x *Exec) coveredRange(st *State, locs []assignLoc, elem types.Type, reg, lo, hi *Term) *Term {
	e := x.e
	var cs []*Term
	for _, l := range locs {
		if l.kind == "range" && typeKey(l.elemT) == typeKey(elem) {
			cs = append(cs, And(l.g(), Eq(l.reg, reg), e.ar.Cmp(token.LEQ, tInt, l.lo, lo), e.ar.Cmp(token.LEQ, tInt, hi, l.hi)))
		}
	}
	// empty ranges write nothing
	cs = append(cs, e.ar.Cmp(token.GEQ, tInt, lo, hi))
	return Or(cs...)
}

func (x *Exec) coveredField(st *State, locs []assignLoc, sty types.Type, field int, ref *Term) *Term {
	var cs []*Term
	for _, l := range locs {
		switch l.kind {
		case "field":
			if structKey(l.sty) == structKey(sty) && l.field == field {
				cs = append(cs, And(l.g(), Eq(l.ref, ref)))
			}
		case "object":
			for _, oc := range x.objectCovers(l.sty, l.ref, sty, ref) {
				cs = append(cs, And(l.g(), oc))
			}
		case "range":
			// a range of struct elements covers the fields of the element objects in it
			if l.elemT != nil && isStruct(l.elemT) && structKey(l.elemT) == structKey(sty) {
				I := x.e.ar.I()
				idx := App("elemref_idx", I, ref)
				cs = append(cs, And(l.g(), Eq(App("elemref_reg", I, ref), l.reg), x.e.ar.Cmp(token.LEQ, tInt, l.lo, idx), x.e.ar.Cmp(token.LSS, tInt, idx, l.hi), Eq(ref, x.e.elemRef(l.reg, idx))))
			}
		}
	}
	return Or(cs...)
}

// objectCovers: `ref` (of struct type sty) is object l.ref or one of its nested struct fields
func (x *Exec) objectCovers(lsty types.Type, lref *Term, sty types.Type, ref *Term) []*Term {
	var cs []*Term
	if structKey(lsty) == structKey(sty) {
		cs = append(cs, Eq(lref, ref))
	}
	s := lsty.Underlying().(*types.Struct)
	for i := 0; i < s.NumFields(); i++ {
		if isStruct(s.Field(i).Type()) {
			cs = append(cs, x.objectCovers(s.Field(i).Type(), x.e.subRef(lsty, i, lref), sty, ref)...)
		}
	}
	return cs
}

func (x *Exec) checkAssign(st *State, in ssa.Instruction, kind string, elem types.Type, reg, idx *Term, sty types.Type, field int, ref *Term) {
	if x.pure > 0 || x.lemma {
		return
	}
	e := x.e
	switch kind {
	case "range":
		hi := e.ar.Bin(token.ADD, tInt, idx, e.ar.IConst(1))
		g := Or(Not(st.isAllocIn(x.oldHeap, reg)), App("wr", BoolSort, reg), x.coveredRange(st, x.assignLocs, elem, reg, idx, hi))
		x.safety(st, in, "assigns", g, "written element is in the assigns clause, freshly allocated or handed out as writable")
	case "field":
		g := Or(Not(st.isAllocIn(x.oldHeap, x.rootRef(ref))), x.coveredField(st, x.assignLocs, sty, field, ref))
		name := sty.Underlying().(*types.Struct).Field(field).Name()
		x.safety(st, in, "assigns", g, "written field ."+name+" is in the assigns clause or belongs to a fresh object")
	}
}

// rootRef strips sub-object / element-reference wrappers to reach the allocation identity
func (x *Exec) rootRef(ref *Term) *Term {
	for ref.Op == "app" && (strings.HasPrefix(ref.Name, "sub_") || ref.Name == "elemref") {
		ref = ref.Args[0]
	}
	return ref
}

func (x *Exec) checkAssignRange(st *State, in ssa.Instruction, elem types.Type, reg, lo, hi *Term) {
	if x.pure > 0 || x.lemma {
		return
	}
	g := Or(Not(st.isAllocIn(x.oldHeap, reg)), App("wr", BoolSort, reg), x.coveredRange(st, x.assignLocs, elem, reg, lo, hi))
	x.safety(st, in, "assigns", g, "written range is in the assigns clause, freshly allocated or handed out as writable")
}

// checkLocAssignable: a callee's assigns target must be assignable by the caller too
func (x *Exec) checkLocAssignable(st *State, in ssa.Instruction, loc assignLoc, callee string) {
	if x.pure > 0 || x.lemma || in == nil {
		return
	}
	var g *Term
	switch loc.kind {
	case "range":
		g = Or(Not(st.isAllocIn(x.oldHeap, loc.reg)), App("wr", BoolSort, loc.reg), x.coveredRange(st, x.assignLocs, loc.elemT, loc.reg, loc.lo, loc.hi))
	case "field":
		g = Or(Not(st.isAllocIn(x.oldHeap, x.rootRef(loc.ref))), x.coveredField(st, x.assignLocs, loc.sty, loc.field, loc.ref))
	case "object":
		cs := []*Term{Not(st.isAllocIn(x.oldHeap, x.rootRef(loc.ref)))}
		for _, l := range x.assignLocs {
			if l.kind == "object" {
				for _, oc := range x.objectCovers(l.sty, l.ref, loc.sty, loc.ref) {
					cs = append(cs, And(l.g(), oc))
				}
			}
		}
		g = Or(cs...)
	case "cell":
		return
	case "ghost":
		cs := []*Term{Not(st.isAllocIn(x.oldHeap, x.rootRef(loc.ref)))}
		for _, l := range x.assignLocs {
			if l.kind == "ghost" && l.text == loc.text {
				cs = append(cs, And(l.g(), Eq(l.ref, loc.ref)))
			}
			if l.kind == "ghostset" && l.text == loc.text {
				cs = append(cs, And(l.g(), Subst(l.cond, map[string]*Term{l.bv.Name: loc.ref})))
			}
		}
		g = Or(cs...)
	case "ghostset":
		// every key the callee may assign is fresh or one the caller may assign
		h := Var("$b_gsk", x.e.ar.I())
		cs := []*Term{Not(st.isAllocIn(x.oldHeap, h))}
		for _, l := range x.assignLocs {
			if l.kind == "ghost" && l.text == loc.text {
				cs = append(cs, And(l.g(), Eq(l.ref, h)))
			}
			if l.kind == "ghostset" && l.text == loc.text {
				cs = append(cs, And(l.g(), Subst(l.cond, map[string]*Term{l.bv.Name: h})))
			}
		}
		g = Forall([]*Term{h}, Implies(Subst(loc.cond, map[string]*Term{loc.bv.Name: h}), Or(cs...)))
	case "global":
		var cs []*Term
		for _, l := range x.assignLocs {
			if l.kind == "global" && l.text == loc.text {
				cs = append(cs, l.g())
			}
		}
		g = Or(cs...)
	}
	if loc.guard != nil {
		g = Implies(loc.guard, g)
	}
	x.safety(st, in, "assigns", g, "location "+loc.text+" assigned by "+callee+" is in the caller's assigns clause or fresh")
}

// havocLoc: the callee may have changed this location arbitrarily
func (x *Exec) havocLoc(st *State, loc assignLoc) {
	e := x.e
	if loc.guard != nil && !loc.guard.IsTrue() && loc.kind == "range" && !isStruct(loc.elemT) {
		// conditional range: the guard joins the "inside the range" condition
		for _, l := range e.leaves(loc.elemT) {
			name := memName(loc.elemT, l.Name)
			m := st.heapGet(name, e.memSort(l.S))
			old := SelectD(m, loc.reg)
			na := e.fresh("hv", old.S)
			kv := Var("$b_khv", e.ar.I())
			in := And(loc.guard, e.ar.Cmp(token.LEQ, tInt, loc.lo, kv), e.ar.Cmp(token.LSS, tInt, kv, loc.hi))
			sel := Select(na, kv)
			st.assume(Forall([]*Term{kv}, Implies(Not(in), Eq(sel, Select(old, kv))), sel))
			st.heapSet(name, Store(m, loc.reg, na))
		}
		return
	}
	if loc.guard != nil && !loc.guard.IsTrue() {
		// conditional location: the heap maps keep their old value when the guard is false
		if loc.kind == "cell" || loc.kind == "global" {
			x.fail("conditional assigns of local cells / globals unsupported")
		}
		l2 := loc
		l2.guard = nil
		// make sure every heap map the location lives in has a current version (maps are created lazily)
		probe := x.cloneState(st)
		x.havocLoc(probe, l2)
		for n, v := range probe.heap {
			if _, ok := st.heap[n]; !ok {
				st.heap[n] = heapInit(n, v.S)
			}
		}
		x.dropState(probe)
		before := copyHeap(st.heap)
		x.havocLoc(st, l2)
		var names []string
		for n := range st.heap {
			names = append(names, n)
		}
		sort.Strings(names)
		for _, n := range names {
			nv := st.heap[n]
			ov, ok := before[n]
			if ok && ov != nv {
				st.heap[n] = Ite(loc.guard, nv, ov)
			}
		}
		return
	}
	switch loc.kind {
	case "ghostset":
		t := e.ghostType(loc.text)
		if t == nil {
			x.fail("undeclared ghost field %s", loc.text)
		}
		for _, l := range e.leaves(t) {
			name := "Gh_" + loc.text[1:] + "_" + l.Name
			old := st.heapGet(name, e.fldSort(l.S))
			nv := st.heapHavoc(name, e.fldSort(l.S))
			h := Var("$b_gsh", e.ar.I())
			st.assume(Forall([]*Term{h}, Implies(Not(Subst(loc.cond, map[string]*Term{loc.bv.Name: h})), Eq(Select(nv, h), Select(old, h))), Select(nv, h)))
		}
	case "range":
		if isStruct(loc.elemT) {
			// elements of a struct slice are the objects elemref(region, index): every field map gets a new
			// version that agrees with the old one outside those objects
			sty := loc.elemT.Underlying().(*types.Struct)
			I := e.ar.I()
			for fi := 0; fi < sty.NumFields(); fi++ {
				ft := sty.Field(fi).Type()
				if isStruct(ft) {
					x.fail("assigns of ranges of struct elements with nested struct fields unsupported")
				}
				for _, l := range e.leaves(ft) {
					name := fldName(loc.elemT, sty.Field(fi).Name(), l.Name)
					m := st.heapGet(name, e.fldSort(l.S))
					nm := st.heapHavoc(name, e.fldSort(l.S))
					r := Var("$b_rhv", I)
					idx := App("elemref_idx", I, r)
					in := And(Eq(App("elemref_reg", I, r), loc.reg), e.ar.Cmp(token.LEQ, tInt, loc.lo, idx), e.ar.Cmp(token.LSS, tInt, idx, loc.hi), Eq(r, e.elemRef(loc.reg, idx)))
					st.assume(Forall([]*Term{r}, Implies(Not(in), Eq(Select(nm, r), Select(m, r))), Select(nm, r)))
				}
			}
			return
		}
		for _, l := range e.leaves(loc.elemT) {
			name := memName(loc.elemT, l.Name)
			m := st.heapGet(name, e.memSort(l.S))
			old := SelectD(m, loc.reg)
			na := e.fresh("hv", old.S)
			kv := Var("$b_khv", e.ar.I())
			in := And(e.ar.Cmp(token.LEQ, tInt, loc.lo, kv), e.ar.Cmp(token.LSS, tInt, kv, loc.hi))
			sel := Select(na, kv)
			st.assume(Forall([]*Term{kv}, Implies(Not(in), Eq(sel, Select(old, kv))), sel))
			st.heapSet(name, Store(m, loc.reg, na))
		}
	case "field":
		s := loc.sty.Underlying().(*types.Struct)
		ft := s.Field(loc.field).Type()
		v := x.freshResult(st, ft, "hf_"+s.Field(loc.field).Name())
		x.markAllocated(st, ft, v)
		st.storeField(loc.sty, loc.field, loc.ref, v)
	case "object":
		s := loc.sty.Underlying().(*types.Struct)
		for i := 0; i < s.NumFields(); i++ {
			if isStruct(s.Field(i).Type()) {
				x.havocLoc(st, assignLoc{kind: "object", sty: s.Field(i).Type(), ref: e.subRef(loc.sty, i, loc.ref)})
				continue
			}
			v := x.freshResult(st, s.Field(i).Type(), "ho_"+s.Field(i).Name())
			x.markAllocated(st, s.Field(i).Type(), v)
			st.storeField(loc.sty, i, loc.ref, v)
		}
	case "ghost":
		t := e.ghostType(loc.text)
		if t == nil {
			x.fail("undeclared ghost field %s", loc.text)
		}
		v := x.freshResult(st, t, "gh_"+loc.text[1:])
		x.markAllocated(st, t, v)
		ls := e.leaves(t)
		ts := e.toLeaves(t, v)
		for i, l := range ls {
			name := "Gh_" + loc.text[1:] + "_" + l.Name
			st.heapSet(name, Store(st.heapGet(name, e.fldSort(l.S)), loc.ref, ts[i]))
		}
	case "cell":
		c := st.cells[*loc.cell.Cell]
		nv := x.freshResult(st, loc.elemT, "hc")
		x.markAllocated(st, loc.elemT, nv)
		st.cells[*loc.cell.Cell] = setPath(c, loc.cell.Path, nv)
	case "global":
		// mutable globals are re-read as unknown
		for k := range st.cells {
			if strings.HasPrefix(k.Name, "global:") && strings.HasSuffix(k.Name, "."+loc.text) {
				delete(st.cells, k)
			}
		}
	}
}

// loopHavocHeap: heap maps written in the loop body get fresh versions. Regions / objects
// that existed at function entry and are outside the function's assigns clause keep their
// contents (nothing in the function may write them - that is checked at every write).
func (x *Exec) loopHavocHeap(st *State, fr *Frame, h *loopHdr) {
	e := x.e
	written, all := x.heapWrites(fr.fn, h.body, map[*ssa.Function]bool{})
	if all {
		x.fail("loop %d of %s: cannot bound the heap effects of the loop body", h.ord, fr.fn.Name())
	}
	var names []string
	for n := range written {
		names = append(names, n)
	}
	sort.Strings(names)
	for _, n := range names {
		s := written[n]
		old := st.heapGet(n, s)
		nv := st.heapHavoc(n, s)
		r := Var("$b_rlf", e.ar.I())
		switch {
		case n == "Alloc":
			st.assume(Forall([]*Term{r}, Implies(Select(old, r), Select(nv, r)), Select(nv, r)))
		case strings.HasPrefix(n, "Mem_"):
			unchanged := And(st.isAllocIn(x.oldHeap, r), Not(x.regionInAssigns(r, n)))
			st.assume(Forall([]*Term{r}, Implies(unchanged, Eq(Select(nv, r), Select(old, r))), Select(nv, r)))
		case strings.HasPrefix(n, "Gh_"):
			var cs []*Term
			for _, l := range x.assignLocs {
				if l.kind == "ghost" && strings.HasPrefix(n, "Gh_"+l.text[1:]+"_") {
					cs = append(cs, Eq(l.ref, r))
				}
				if l.kind == "ghostset" && strings.HasPrefix(n, "Gh_"+l.text[1:]+"_") {
					cs = append(cs, Subst(l.cond, map[string]*Term{l.bv.Name: r}))
				}
			}
			st.assume(Forall([]*Term{r}, Implies(Not(Or(cs...)), Eq(Select(nv, r), Select(old, r))), Select(nv, r)))
		case strings.HasPrefix(n, "Fld_"):
			unchanged := And(st.isAllocIn(x.oldHeap, r), Not(x.refInAssigns(r, n)))
			st.assume(Forall([]*Term{r}, Implies(unchanged, Eq(Select(nv, r), Select(old, r))), Select(nv, r)))
		}
	}
}

func (x *Exec) regionInAssigns(r *Term, memname string) *Term {
	var cs []*Term
	for _, l := range x.assignLocs {
		if l.kind == "range" && strings.HasPrefix(memname, "Mem_"+typeKey(l.elemT)+"_") {
			cs = append(cs, Eq(l.reg, r))
		}
	}
	return Or(cs...)
}

func (x *Exec) refInAssigns(r *Term, fldname string) *Term {
	var cs []*Term
	for _, l := range x.assignLocs {
		switch l.kind {
		case "field":
			s := l.sty.Underlying().(*types.Struct)
			if strings.HasPrefix(fldname, "Fld_"+structKey(l.sty)+"_"+s.Field(l.field).Name()+"_") {
				cs = append(cs, Eq(l.ref, r))
			}
		case "object":
			// any field of the object or its nested objects: over-approximate by root identity
			cs = append(cs, Eq(x.rootRef(l.ref), x.rootRefOfVar(r)))
		}
	}
	return Or(cs...)
}

func (x *Exec) rootRefOfVar(r *Term) *Term { return r }

// heapWrites: names of heap maps that the given blocks may write (syntactic, transitive).
func (x *Exec) heapWrites(fn *ssa.Function, blocks map[*ssa.BasicBlock]bool, seen map[*ssa.Function]bool) (map[string]*Sort, bool) {
	e := x.e
	out := map[string]*Sort{}
	all := false
	addMem := func(t types.Type) {
		if isStruct(t) {
			s := t.Underlying().(*types.Struct)
			for i := 0; i < s.NumFields(); i++ {
				if isStruct(s.Field(i).Type()) {
					continue
				}
				for _, l := range e.leaves(s.Field(i).Type()) {
					out[fldName(t, s.Field(i).Name(), l.Name)] = e.fldSort(l.S)
				}
			}
			return
		}
		for _, l := range e.leaves(t) {
			out[memName(t, l.Name)] = e.memSort(l.S)
		}
	}
	var addField func(sty types.Type, i int)
	addField = func(sty types.Type, i int) {
		s := sty.Underlying().(*types.Struct)
		ft := s.Field(i).Type()
		if isStruct(ft) {
			fs := ft.Underlying().(*types.Struct)
			for j := 0; j < fs.NumFields(); j++ {
				addField(ft, j)
			}
			return
		}
		for _, l := range e.leaves(ft) {
			out[fldName(sty, s.Field(i).Name(), l.Name)] = e.fldSort(l.S)
		}
	}
	var rootKind func(v ssa.Value) (string, types.Type, int)
	rootKind = func(v ssa.Value) (string, types.Type, int) {
		switch a := v.(type) {
		case *ssa.Alloc:
			if !a.Heap {
				return "cell", nil, 0
			}
			return "fresh", nil, 0
		case *ssa.FieldAddr:
			k, _, _ := rootKind(a.X)
			if k == "cell" {
				return "cell", nil, 0
			}
			return "field", a.X.Type().Underlying().(*types.Pointer).Elem(), a.Field
		case *ssa.IndexAddr:
			k, _, _ := rootKind(a.X)
			if k == "cell" {
				return "cell", nil, 0
			}
			switch u := a.X.Type().Underlying().(type) {
			case *types.Slice:
				return "elem", u.Elem(), 0
			case *types.Pointer:
				if k == "field" {
					return rootKind(a.X)
				}
				return "elem", u.Elem().Underlying().(*types.Array).Elem(), 0
			}
		case *ssa.Global:
			return "global", nil, 0
		}
		return "unknown", nil, 0
	}
	for b := range blocks {
		for _, in := range b.Instrs {
			switch v := in.(type) {
			case *ssa.Store:
				k, t, f := rootKind(v.Addr)
				switch k {
				case "cell", "global":
				case "field":
					addField(t, f)
				case "elem":
					addMem(t)
				case "fresh":
					if pt, ok := v.Addr.Type().Underlying().(*types.Pointer); ok {
						if isStruct(pt.Elem()) {
							addMem(pt.Elem())
						} else {
							addMem(pt.Elem())
						}
					}
				default:
					if pt, ok := v.Addr.Type().Underlying().(*types.Pointer); ok {
						addMem(pt.Elem())
					} else {
						all = true
					}
				}
			case *ssa.Alloc:
				if v.Heap {
					out["Alloc"] = ArraySort(e.ar.I(), BoolSort)
					t := v.Type().Underlying().(*types.Pointer).Elem()
					if at, ok := t.Underlying().(*types.Array); ok {
						addMem(at.Elem())
					} else {
						addMem(t)
					}
				}
			case *ssa.MakeSlice:
				out["Alloc"] = ArraySort(e.ar.I(), BoolSort)
				addMem(v.Type().Underlying().(*types.Slice).Elem())
			case *ssa.MakeMap:
				out["Alloc"] = ArraySort(e.ar.I(), BoolSort)
				out["MapLen"] = e.fldSort(e.ar.I())
			case *ssa.MapUpdate:
				out["MapLen"] = e.fldSort(e.ar.I())
			case *ssa.MakeInterface:
				if !isIface(v.X.Type()) {
					if _, ok := isStructPtr(v.X.Type()); !ok {
						out["Alloc"] = ArraySort(e.ar.I(), BoolSort)
						if isStruct(v.X.Type()) {
							addMem(v.X.Type())
						} else {
							for _, l := range e.leaves(v.X.Type()) {
								out["Box_"+typeKey(v.X.Type())+"_"+l.Name] = e.fldSort(l.S)
							}
						}
					}
				}
			case *ssa.Convert:
				// string <-> []byte conversions allocate
				if (isString(v.Type()) && isByteSlice(v.X.Type())) || (isByteSlice(v.Type()) && isString(v.X.Type())) {
					out["Alloc"] = ArraySort(e.ar.I(), BoolSort)
					addMem(byteType)
				}
			case *ssa.Call:
				w, a := x.callWrites(v, seen)
				if a {
					all = true
				}
				for n, s := range w {
					out[n] = s
				}
			}
		}
	}
	return out, all
}

func (x *Exec) callWrites(c *ssa.Call, seen map[*ssa.Function]bool) (map[string]*Sort, bool) {
	e := x.e
	out := map[string]*Sort{}
	com := c.Common()
	alloc := func() { out["Alloc"] = ArraySort(e.ar.I(), BoolSort) }
	fromSpec := func(spec *FuncSpec, fn *ssa.Function, sig *types.Signature) bool {
		// results may be fresh allocations
		alloc()
		for i := 0; i < sig.Results().Len(); i++ {
			rt := sig.Results().At(i).Type()
			if sl, ok := rt.Underlying().(*types.Slice); ok && !isStruct(sl.Elem()) {
				for _, l := range e.leaves(sl.Elem()) {
					out[memName(sl.Elem(), l.Name)] = e.memSort(l.S)
				}
			}
		}
		for _, a := range spec.Assigns {
			names, ok := x.assignTargetMaps(a, fn, spec, sig)
			if !ok {
				return true
			}
			for n, s := range names {
				out[n] = s
			}
		}
		return false
	}
	if com.IsInvoke() {
		spec := e.ifaceSpec(com.Value.Type(), com.Method.Name())
		if spec == nil {
			return out, true
		}
		return out, fromSpec(spec, nil, com.Signature())
	}
	switch f := com.Value.(type) {
	case *ssa.Builtin:
		switch f.Name() {
		case "append":
			alloc()
			elem := com.Args[0].Type().Underlying().(*types.Slice).Elem()
			if isStruct(elem) {
				w, _ := x.heapWrites(nil, nil, seen)
				_ = w
				s := elem.Underlying().(*types.Struct)
				for i := 0; i < s.NumFields(); i++ {
					if !isStruct(s.Field(i).Type()) {
						for _, l := range e.leaves(s.Field(i).Type()) {
							out[fldName(elem, s.Field(i).Name(), l.Name)] = e.fldSort(l.S)
						}
					}
				}
			} else {
				for _, l := range e.leaves(elem) {
					out[memName(elem, l.Name)] = e.memSort(l.S)
				}
			}
		case "copy":
			elem := com.Args[0].Type().Underlying().(*types.Slice).Elem()
			for _, l := range e.leaves(elem) {
				out[memName(elem, l.Name)] = e.memSort(l.S)
			}
		case "delete":
			out["MapLen"] = e.fldSort(e.ar.I())
		}
		return out, false
	case *ssa.Function:
		target := f
		if f.Origin() != nil && len(f.Blocks) == 0 {
			target = f.Origin()
		}
		name := target.String()
		switch name {
		case "math.Float64bits", "math.Float64frombits", "fmt.Sprintf", "fmt.Sprint":
			return out, false
		case "errors.New", "fmt.Errorf":
			alloc()
			for _, l := range e.leaves(types.Typ[types.String]) {
				out["Gh_errtext_"+l.Name] = e.fldSort(l.S)
			}
			return out, false
		}
		if spec := e.specFor(target); spec != nil && !spec.Inline {
			return out, fromSpec(spec, target, target.Signature)
		}
		if len(target.Blocks) == 0 || seen[target] {
			return out, seen[target] == false
		}
		seen[target] = true
		blocks := map[*ssa.BasicBlock]bool{}
		for _, b := range target.Blocks {
			blocks[b] = true
		}
		w, a := x.heapWrites(target, blocks, seen)
		for n, s := range w {
			out[n] = s
		}
		return out, a
	}
	return out, true
}

// assignTargetMaps: heap map names an assigns target may touch, determined from types only
func (x *Exec) assignTargetMaps(c *Clause, fn *ssa.Function, spec *FuncSpec, sig *types.Signature) (map[string]*Sort, bool) {
	e := x.e
	out := map[string]*Sort{}
	typeOfName := func(n string) types.Type {
		if fn != nil {
			for _, p := range fn.Params {
				if p.Name() == n {
					return p.Type()
				}
			}
		}
		names, typs := paramNames(fn, spec, sig, "")
		for i, pn := range names {
			if pn == n {
				return typs[i]
			}
		}
		return nil
	}
	var typeOf func(ex Expr) types.Type
	typeOf = func(ex Expr) types.Type {
		switch v := ex.(type) {
		case EIdent:
			return typeOfName(v.Name)
		case ESel:
			bt := typeOf(v.X)
			if bt == nil {
				return nil
			}
			if p, ok := bt.Underlying().(*types.Pointer); ok {
				bt = p.Elem()
			}
			if s, ok := bt.Underlying().(*types.Struct); ok {
				for i := 0; i < s.NumFields(); i++ {
					if s.Field(i).Name() == v.Sel {
						return s.Field(i).Type()
					}
				}
				for i := 0; i < s.NumFields(); i++ {
					if s.Field(i).Embedded() {
						if fs, ok := s.Field(i).Type().Underlying().(*types.Struct); ok {
							for j := 0; j < fs.NumFields(); j++ {
								if fs.Field(j).Name() == v.Sel {
									return fs.Field(j).Type()
								}
							}
						}
					}
				}
			}
		case ESlice:
			return typeOf(v.X)
		}
		return nil
	}
	var addObject func(t types.Type)
	addObject = func(t types.Type) {
		s := t.Underlying().(*types.Struct)
		for i := 0; i < s.NumFields(); i++ {
			ft := s.Field(i).Type()
			if isStruct(ft) {
				addObject(ft)
				continue
			}
			for _, l := range e.leaves(ft) {
				out[fldName(t, s.Field(i).Name(), l.Name)] = e.fldSort(l.S)
			}
		}
	}
	switch t := c.E.(type) {
	case EBinary:
		if t.Op == "==>" {
			cc := *c
			cc.E = t.Y
			return x.assignTargetMaps(&cc, fn, spec, sig)
		}
	case EQuant:
		if bb, ok := t.Body.(EBinary); ok && bb.Op == "==>" {
			if sel, ok := bb.Y.(ESel); ok && strings.HasPrefix(sel.Sel, "$") {
				gt := e.ghostType(sel.Sel)
				if gt == nil {
					return nil, false
				}
				for _, l := range e.leaves(gt) {
					out["Gh_"+sel.Sel[1:]+"_"+l.Name] = e.fldSort(l.S)
				}
				return out, true
			}
		}
	case ESlice, EIndex:
		var bx Expr
		if s, ok := t.(ESlice); ok {
			bx = s.X
		} else {
			bx = t.(EIndex).X
		}
		bt := typeOf(bx)
		if bt == nil {
			return nil, false
		}
		sl, ok := bt.Underlying().(*types.Slice)
		if !ok || isStruct(sl.Elem()) {
			return nil, false
		}
		for _, l := range e.leaves(sl.Elem()) {
			out[memName(sl.Elem(), l.Name)] = e.memSort(l.S)
		}
		return out, true
	case ESel:
		if strings.HasPrefix(t.Sel, "$") {
			gt := e.ghostType(t.Sel)
			if gt == nil {
				return nil, false
			}
			for _, l := range e.leaves(gt) {
				out["Gh_"+t.Sel[1:]+"_"+l.Name] = e.fldSort(l.S)
			}
			return out, true
		}
		bt := typeOf(t.X)
		if bt == nil {
			return nil, false
		}
		p, ok := bt.Underlying().(*types.Pointer)
		if !ok {
			return nil, false
		}
		s, ok := p.Elem().Underlying().(*types.Struct)
		if !ok {
			return nil, false
		}
		var find func(st types.Type, s *types.Struct) bool
		find = func(sty types.Type, s *types.Struct) bool {
			for i := 0; i < s.NumFields(); i++ {
				if s.Field(i).Name() == t.Sel {
					ft := s.Field(i).Type()
					if isStruct(ft) {
						addObject(ft)
					} else {
						for _, l := range e.leaves(ft) {
							out[fldName(sty, s.Field(i).Name(), l.Name)] = e.fldSort(l.S)
						}
					}
					return true
				}
			}
			for i := 0; i < s.NumFields(); i++ {
				if s.Field(i).Embedded() {
					if fs, ok := s.Field(i).Type().Underlying().(*types.Struct); ok && find(s.Field(i).Type(), fs) {
						return true
					}
				}
			}
			return false
		}
		return out, find(p.Elem(), s)
	case EUnary:
		if t.Op == "*" {
			bt := typeOf(t.X)
			if bt == nil {
				return nil, false
			}
			if p, ok := bt.Underlying().(*types.Pointer); ok {
				if isStruct(p.Elem()) {
					addObject(p.Elem())
				} else {
					for _, l := range e.leaves(p.Elem()) {
						out[memName(p.Elem(), l.Name)] = e.memSort(l.S)
					}
				}
				return out, true
			}
		}
	case EIdent:
		return out, true
	}
	return nil, false
}

// applyHint assumes an instance of a proved lemma: `hint pkg.Lemma(args)` adds
// (requires => ensures) of the lemma's contract for the given arguments.
func (x *Exec) applyHint(st *State, env *Env, h *Clause) {
	call, ok := h.E.(ECall)
	if !ok {
		panic(evalErr("hint must be a call to a lemma function: " + h.Text))
	}
	f := env.eval(call.Fun)
	if f.FnRef == nil {
		panic(evalErr("hint: not a function: " + h.Text))
	}
	spec := x.e.specFor(f.FnRef)
	if spec == nil || spec.Trusted {
		panic(evalErr("hint: lemma " + f.FnRef.Name() + " has no (verified) contract"))
	}
	if len(spec.Assigns) > 0 {
		panic(evalErr("hint: lemma " + f.FnRef.Name() + " must not assign anything"))
	}
	fn := f.FnRef
	if len(call.Args) != len(fn.Params) {
		panic(evalErr("hint: wrong number of arguments: " + h.Text))
	}
	vars := map[string]TV{}
	for i, p := range fn.Params {
		tv := env.eval(call.Args[i])
		if tv.V == nil {
			tv = env.coerce(tv, p.Type())
		} else if n, ok := numOf(p.Type()); ok {
			if fnum, ok2 := numOf(tv.T); ok2 && fnum != n {
				tv = TV{V: st.convert(tv.T, p.Type(), tv.V), T: p.Type()}
			}
		}
		vars[p.Name()] = TV{V: tv.V, T: p.Type()}
	}
	lenv := &Env{x: x, st: st, heap: env.heap, old: env.heap, vars: vars, ovars: vars, pkg: x.specPkg(spec)}
	var pre, post []*Term
	for _, c := range spec.Requires {
		pre = append(pre, x.evalClause(st, lenv, c, spec))
	}
	for _, c := range spec.Ensures {
		post = append(post, x.evalClause(st, lenv, c, spec))
	}
	ht := Implies(And(pre...), And(post...))
	x.e.hintTerms[ht] = true
	st.assume(ht)
	x.e.lemmasUsed[x.e.qualName(fn)] = true
}

// modelFields: the fields of `self` that an abstraction function reads directly (self.f)
func modelFields(ex Expr) []string {
	seen := map[string]bool{}
	var out []string
	var rec func(e Expr)
	rec = func(e Expr) {
		switch v := e.(type) {
		case ESel:
			if id, ok := v.X.(EIdent); ok && id.Name == "self" && !strings.HasPrefix(v.Sel, "$") {
				if !seen[v.Sel] {
					seen[v.Sel] = true
					out = append(out, v.Sel)
				}
				return
			}
			rec(v.X)
		case ECall:
			rec(v.Fun)
			for _, a := range v.Args {
				rec(a)
			}
		case EIndex:
			rec(v.X)
			rec(v.I)
		case ESlice:
			rec(v.X)
			if v.Lo != nil {
				rec(v.Lo)
			}
			if v.Hi != nil {
				rec(v.Hi)
			}
		case EUnary:
			rec(v.X)
		case EBinary:
			rec(v.X)
			rec(v.Y)
		case ECond:
			rec(v.C)
			rec(v.A)
			rec(v.B)
		case EQuant:
			rec(v.Body)
		}
	}
	rec(ex)
	return out
}

// refinedSpec resolves "Iface.Method" (optionally package-qualified) to an iface contract.
func (e *Engine) refinedSpec(fn *ssa.Function, name string) *FuncSpec {
	pp := funcPkgPath(fn)
	if ps := e.specs[pp]; ps != nil {
		if s := ps.Ifaces[name]; s != nil {
			return s
		}
	}
	var paths []string
	for p := range e.specs {
		paths = append(paths, p)
	}
	sort.Strings(paths)
	for _, p := range paths {
		ps := e.specs[p]
		if s := ps.Ifaces[name]; s != nil {
			return s
		}
		// "pkg.Iface.Method"
		if i := strings.Index(name, "."); i >= 0 && e.shortPkg(p) == name[:i] {
			if s := ps.Ifaces[name[i+1:]]; s != nil {
				return s
			}
		}
	}
	return nil
}

// refineEnv binds the interface contract's names (self, params, results) to a method's values.
func (x *Exec) refineEnv(st *State, fn *ssa.Function, is *FuncSpec, args []Val, results []Val) *Env {
	vars := map[string]TV{}
	sig := fn.Signature
	if len(fn.Params) > 0 {
		vars["self"] = TV{V: args[0], T: fn.Params[0].Type()}
	}
	for i := 1; i < len(fn.Params); i++ {
		n := fn.Params[i].Name()
		if i-1 < len(is.Params) {
			n = is.Params[i-1]
		}
		vars[n] = TV{V: args[i], T: fn.Params[i].Type()}
	}
	if results != nil {
		names := resultNames(is, sig)
		for i, n := range names {
			vars[n] = TV{V: results[i], T: sig.Results().At(i).Type()}
			vars[fmt.Sprintf("ret%d", i)] = vars[n]
		}
		if len(results) == 1 {
			vars["ret"] = vars[names[0]]
		}
	}
	old := x.oldHeap
	if old == nil {
		old = st.heap
	}
	ov := map[string]TV{}
	for k, v := range vars {
		ov[k] = v
	}
	return &Env{x: x, st: st, heap: st.heap, old: old, vars: vars, ovars: ov, pkg: x.specPkg(is)}
}

// refinerAssigns: the union of the assigns clauses of the methods of the handle's dynamic type
// that refine interface contracts, evaluated with the handle as receiver. A client that only
// reaches the object through the interface can change nothing else.
func (x *Exec) refinerAssigns(env *Env, dt types.Type, ref *Term) ([]assignLoc, bool) {
	e := x.e
	named, ok := types.Unalias(dt.Underlying().(*types.Pointer).Elem()).(*types.Named)
	if !ok || named.Obj().Pkg() == nil {
		return nil, false
	}
	pp := named.Obj().Pkg().Path()
	ps := e.specs[pp]
	if ps == nil {
		return nil, false
	}
	var locs []assignLoc
	found := false
	for _, key := range ps.sortedFuncKeys() {
		fs := ps.Funcs[key]
		if len(fs.Refines) == 0 || !strings.HasPrefix(key, named.Obj().Name()+".") {
			continue
		}
		fn := e.findFunc(pp, key)
		if fn == nil || len(fn.Params) == 0 {
			continue
		}
		found = true
		sub := *env
		sub.vars = map[string]TV{fn.Params[0].Name(): {V: VRef{ref}, T: dt}}
		sub.ovars = sub.vars
		sub.fr = nil
		if tp := e.tpkgs[pp]; tp != nil {
			sub.pkg = tp.Types
		}
		for _, a := range fs.Assigns {
			// targets that mention the method's other parameters belong to the call's own
			// assigns clause (the interface contract lists them), not to the object's footprint
			func() {
				defer func() {
					if r := recover(); r != nil {
						if v, ok := r.(evalErr); ok && strings.Contains(string(v), "unknown identifier") {
							return
						}
						panic(r)
					}
				}()
				locs = append(locs, x.evalAssignTarget(&sub, a, fs)...)
			}()
		}
	}
	if !found {
		// methods promoted from an embedded first field act on the same object (field 0 shares identity)
		if et := embeddedBase(named); et != nil {
			return x.refinerAssigns(env, types.NewPointer(et), ref)
		}
	}
	return locs, found
}

// embeddedBase: the named struct type embedded as the first field of a named struct type, if any
func embeddedBase(named *types.Named) types.Type {
	s, ok := named.Underlying().(*types.Struct)
	if !ok || s.NumFields() == 0 || !s.Field(0).Embedded() {
		return nil
	}
	if n, ok := types.Unalias(s.Field(0).Type()).(*types.Named); ok {
		if _, ok := n.Underlying().(*types.Struct); ok {
			return n
		}
	}
	return nil
}

// constraintFor: the history constraint declared for the (pointer-to-named-struct) type of a handle
func (x *Exec) constraintFor(st *State, t types.Type, self Val, old map[string]*Term) (*Clause, *Env) {
	pt, ok := t.Underlying().(*types.Pointer)
	if !ok {
		return nil, nil
	}
	named, ok := types.Unalias(pt.Elem()).(*types.Named)
	if !ok || named.Obj().Pkg() == nil {
		return nil, nil
	}
	ps := x.e.specs[named.Obj().Pkg().Path()]
	if ps == nil {
		return nil, nil
	}
	c := ps.Constraints[named.Obj().Name()]
	if c == nil {
		if et := embeddedBase(named); et != nil {
			return x.constraintFor(st, types.NewPointer(et), self, old)
		}
		return nil, nil
	}
	vars := map[string]TV{"self": {V: self, T: t}}
	var pkg *types.Package
	if tp := x.e.tpkgs[named.Obj().Pkg().Path()]; tp != nil {
		pkg = tp.Types
	}
	return c, &Env{x: x, st: st, heap: st.heap, old: old, vars: vars, ovars: vars, pkg: pkg}
}
