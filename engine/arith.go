package main

// Typed Go arithmetic over SMT terms, in one of two modes:
//   bv  : every Go integer is the bit-vector of its width (wrapping semantics, exact)
//   int : every Go integer is an SMT Int; + - * and narrowing conversions raise a
//         no-overflow side condition (an obligation) so machine arithmetic is proved,
//         not assumed, to coincide with mathematical arithmetic.

import (
	"fmt"
	"go/token"
	"go/types"
	"math/big"
)

type Mode int

const (
	ModeBV Mode = iota
	ModeInt
)

func (m Mode) String() string {
	if m == ModeBV {
		return "bv"
	}
	return "int"
}

type NumT struct {
	Bits   int
	Signed bool
	Float  bool
}

var (
	tInt     = NumT{64, true, false}
	tUint64  = NumT{64, false, false}
	tUintptr = NumT{64, false, false}
	tByte    = NumT{8, false, false}
	tInt32   = NumT{32, true, false}
	tUint32  = NumT{32, false, false}
)

func numOf(t types.Type) (NumT, bool) {
	b, ok := t.Underlying().(*types.Basic)
	if !ok {
		return NumT{}, false
	}
	switch b.Kind() {
	case types.Int8:
		return NumT{8, true, false}, true
	case types.Int16:
		return NumT{16, true, false}, true
	case types.Int32:
		return NumT{32, true, false}, true
	case types.Int, types.Int64, types.UntypedInt, types.UntypedRune:
		return NumT{64, true, false}, true
	case types.Uint8:
		return NumT{8, false, false}, true
	case types.Uint16:
		return NumT{16, false, false}, true
	case types.Uint32:
		return NumT{32, false, false}, true
	case types.Uint, types.Uint64, types.Uintptr:
		return NumT{64, false, false}, true
	case types.Float64, types.UntypedFloat:
		return NumT{64, false, true}, true
	case types.Float32:
		return NumT{32, false, true}, true
	}
	return NumT{}, false
}

func (n NumT) Min() *big.Int {
	if !n.Signed {
		return big.NewInt(0)
	}
	return new(big.Int).Neg(new(big.Int).Lsh(big.NewInt(1), uint(n.Bits-1)))
}
func (n NumT) Max() *big.Int {
	if !n.Signed {
		return mask(n.Bits)
	}
	return new(big.Int).Sub(new(big.Int).Lsh(big.NewInt(1), uint(n.Bits-1)), big.NewInt(1))
}

type Arith struct {
	Mode Mode
	// SideCond receives a condition that must hold for the int-mode abstraction to be
	// exact (no overflow); nil in contexts where side conditions are not collected
	// (contract expressions are mathematical in int mode).
	SideCond func(cond *Term, what string)
}

// I is the sort of int / indices / region ids / refs
func (a *Arith) I() *Sort {
	if a.Mode == ModeBV {
		return BV(64)
	}
	return IntSort
}

func (a *Arith) Sort(n NumT) *Sort {
	if a.Mode == ModeBV {
		return BV(n.Bits)
	}
	return IntSort
}

func (a *Arith) ByteSort() *Sort { return a.Sort(tByte) }

func (a *Arith) Const(n NumT, v *big.Int) *Term {
	if a.Mode == ModeBV {
		return Const(BV(n.Bits), v)
	}
	// normalise into range (constants in Go are always in range when typed)
	return Const(IntSort, v)
}
func (a *Arith) ConstI(n NumT, v int64) *Term { return a.Const(n, big.NewInt(v)) }
func (a *Arith) IConst(v int64) *Term         { return a.ConstI(tInt, v) }

// InRange is the typing fact of a value of type n (trivial in bv mode)
func (a *Arith) InRange(n NumT, x *Term) *Term {
	if a.Mode == ModeBV {
		return True
	}
	if n.Float {
		// a float is its bit pattern
		return And(IntCmp("<=", ConstI(IntSort, 0), x), IntCmp("<", x, Const(IntSort, bigPow2(uint(n.Bits)))))
	}
	return And(IntCmp("<=", Const(IntSort, n.Min()), x), IntCmp("<=", x, Const(IntSort, n.Max())))
}

func (a *Arith) side(c *Term, what string) {
	if a.SideCond != nil && !c.IsTrue() {
		a.SideCond(c, what)
	}
}

func (a *Arith) Bin(op token.Token, n NumT, x, y *Term) *Term {
	if n.Float {
		// floats are opaque bit patterns; arithmetic is uninterpreted
		return App("fop_"+tokName(op), x.S, x, y)
	}
	if a.Mode == ModeBV {
		switch op {
		case token.ADD:
			return BVOp("bvadd", x, y)
		case token.SUB:
			return BVOp("bvsub", x, y)
		case token.MUL:
			return BVOp("bvmul", x, y)
		case token.QUO:
			if n.Signed {
				return BVOp("bvsdiv", x, y)
			}
			return BVOp("bvudiv", x, y)
		case token.REM:
			if n.Signed {
				return BVOp("bvsrem", x, y)
			}
			return BVOp("bvurem", x, y)
		case token.AND:
			return BVOp("bvand", x, y)
		case token.OR:
			return BVOp("bvor", x, y)
		case token.XOR:
			return BVOp("bvxor", x, y)
		case token.AND_NOT:
			return BVOp("bvand", x, BVNot(y))
		case token.SHL:
			return BVOp("bvshl", x, y)
		case token.SHR:
			if n.Signed {
				return BVOp("bvashr", x, y)
			}
			return BVOp("bvlshr", x, y)
		}
		panic("bv binop " + op.String())
	}
	// int mode
	var r *Term
	zero := ConstI(IntSort, 0)
	switch op {
	case token.ADD:
		r = IntOp("+", x, y)
	case token.SUB:
		r = IntOp("-", x, y)
	case token.MUL:
		if x.IsConst() || y.IsConst() {
			r = IntOp("*", x, y)
		} else {
			// a product of two symbolic values is an uninterpreted symbol with linear axiom
			// instances (solve.go): congruence does most of the work and the query stays linear
			if x.Key() > y.Key() {
				x, y = y, x
			}
			r = App("umul", IntSort, x, y)
		}
	case token.QUO:
		// Go truncates toward zero; SMT div is euclidean. Exact for x >= 0, y > 0.
		a.side(And(IntCmp(">=", x, zero), IntCmp(">", y, zero)), "division operands non-negative (int mode)")
		if y.IsConst() {
			return IntOp("div", x, y)
		}
		return App("udiv", IntSort, x, y)
	case token.REM:
		a.side(And(IntCmp(">=", x, zero), IntCmp(">", y, zero)), "remainder operands non-negative (int mode)")
		if y.IsConst() {
			return tagBits(IntOp("mod", x, y), y.Val.BitLen())
		}
		return App("urem", IntSort, x, y)
	case token.SHL:
		if y.IsConst() && y.Val.IsInt64() && y.Val.Int64() < int64(n.Bits) {
			c := uint(y.Val.Int64())
			r = IntOp("*", x, Const(IntSort, bigPow2(c)))
			if ub, ok := ubOf(x); ok && !n.Signed {
				if ub+int(c) <= n.Bits {
					return tagBits(r, ub+int(c))
				}
				return tagBits(IntOp("mod", r, Const(IntSort, bigPow2(uint(n.Bits)))), n.Bits)
			}
			if !n.Signed {
				return tagBits(IntOp("mod", r, Const(IntSort, bigPow2(uint(n.Bits)))), n.Bits)
			}
		} else {
			return App("ushl", IntSort, x, y)
		}
	case token.SHR:
		// floor division is exact for logical shifts of unsigned and arithmetic shifts of signed values
		if y.IsConst() && y.Val.IsInt64() && y.Val.Int64() < int64(n.Bits) {
			c := uint(y.Val.Int64())
			res := IntOp("div", x, Const(IntSort, bigPow2(c)))
			if ub, ok := ubOf(x); ok {
				nb := ub - int(c)
				if nb < 0 {
					nb = 0
				}
				tagBits(res, nb)
			}
			return res
		}
		return App("ushr", IntSort, x, y)
	case token.AND:
		for _, p := range [][2]*Term{{x, y}, {y, x}} {
			v, m := p[0], p[1]
			if !m.IsConst() || m.Val.Sign() < 0 {
				continue
			}
			// low mask 2^k-1
			m1 := new(big.Int).Add(m.Val, big.NewInt(1))
			if new(big.Int).And(m1, m.Val).Sign() == 0 {
				return tagBits(IntOp("mod", v, Const(IntSort, m1)), m1.BitLen()-1)
			}
			// high mask 2^bits - 2^k on an unsigned operand
			if !n.Signed {
				inv := new(big.Int).Sub(bigPow2(uint(n.Bits)), m.Val)
				if inv.Sign() > 0 && new(big.Int).And(inv, new(big.Int).Sub(inv, big.NewInt(1))).Sign() == 0 {
					return tagBits(IntOp("-", v, IntOp("mod", v, Const(IntSort, inv))), n.Bits)
				}
			}
		}
		return App("uand", IntSort, x, y)
	case token.OR:
		for _, p := range [][2]*Term{{x, y}, {y, x}} {
			hi, lo := p[0], p[1]
			if ub, ok := ubOf(lo); ok && tzOf(hi) >= ub {
				res := IntOp("+", hi, lo)
				if uh, ok2 := ubOf(hi); ok2 {
					if uh < ub {
						uh = ub
					}
					tagBits(res, uh)
				}
				return res
			}
		}
		return App("uor", IntSort, x, y)
	case token.XOR:
		return App("uxor", IntSort, x, y)
	case token.AND_NOT:
		return App("uandnot", IntSort, x, y)
	default:
		panic("int binop " + op.String())
	}
	a.side(a.InRange(n, r), fmt.Sprintf("no overflow in %s on %d-bit %s", op, n.Bits, sgn(n)))
	return r
}

// ---- int mode: syntactic knowledge about bit patterns of Int terms ----

var ubits = map[*Term]int{}

// tagBits records 0 <= t < 2^bits
func tagBits(t *Term, bits int) *Term {
	if !t.IsConst() {
		if old, ok := ubits[t]; !ok || bits < old {
			ubits[t] = bits
		}
	}
	return t
}

// ubOf: w such that 0 <= t < 2^w is known
func ubOf(t *Term) (int, bool) {
	if t.IsConst() {
		if t.Val.Sign() < 0 {
			return 0, false
		}
		return t.Val.BitLen(), true
	}
	if w, ok := ubits[t]; ok {
		return w, true
	}
	switch t.Op {
	case "mod":
		if t.Args[1].IsConst() && t.Args[1].Val.Sign() > 0 {
			return new(big.Int).Sub(t.Args[1].Val, big.NewInt(1)).BitLen(), true
		}
	case "*":
		if len(t.Args) == 2 && t.Args[1].IsConst() && t.Args[1].Val.Sign() > 0 {
			if w, ok := ubOf(t.Args[0]); ok {
				return w + t.Args[1].Val.BitLen(), true
			}
		}
	case "div":
		if t.Args[1].IsConst() && t.Args[1].Val.Sign() > 0 {
			if w, ok := ubOf(t.Args[0]); ok {
				nb := w - (t.Args[1].Val.BitLen() - 1)
				if nb < 0 {
					nb = 0
				}
				return nb, true
			}
		}
	case "ite":
		a, ok1 := ubOf(t.Args[1])
		b, ok2 := ubOf(t.Args[2])
		if ok1 && ok2 {
			if a < b {
				a = b
			}
			return a, true
		}
	}
	return 0, false
}

// tzOf: number of known trailing zero bits
func tzOf(t *Term) int {
	if t.IsConst() {
		if t.Val.Sign() == 0 {
			return 1 << 20
		}
		return int(t.Val.TrailingZeroBits())
	}
	switch t.Op {
	case "*":
		if len(t.Args) == 2 && t.Args[1].IsConst() && t.Args[1].Val.Sign() > 0 {
			return tzOf(t.Args[0]) + int(t.Args[1].Val.TrailingZeroBits())
		}
	case "+":
		m := 1 << 20
		for _, a := range t.Args {
			if z := tzOf(a); z < m {
				m = z
			}
		}
		return m
	case "-":
		if len(t.Args) == 2 {
			a, b := tzOf(t.Args[0]), tzOf(t.Args[1])
			if b < a {
				a = b
			}
			return a
		}
	}
	return 0
}

func sgn(n NumT) string {
	if n.Signed {
		return "signed"
	}
	return "unsigned"
}

func tokName(op token.Token) string {
	switch op {
	case token.ADD:
		return "add"
	case token.SUB:
		return "sub"
	case token.MUL:
		return "mul"
	case token.QUO:
		return "div"
	}
	return "op"
}

func (a *Arith) Neg(n NumT, x *Term) *Term {
	if a.Mode == ModeBV {
		return BVNeg(x)
	}
	r := IntOp("-", ConstI(IntSort, 0), x)
	a.side(a.InRange(n, r), "no overflow in negation")
	return r
}

func (a *Arith) Cmp(op token.Token, n NumT, x, y *Term) *Term {
	switch op {
	case token.EQL:
		return Eq(x, y)
	case token.NEQ:
		return Not(Eq(x, y))
	}
	if n.Float {
		return App("fcmp_"+op.String(), BoolSort, x, y)
	}
	if a.Mode == ModeBV {
		p := "bvu"
		if n.Signed {
			p = "bvs"
		}
		switch op {
		case token.LSS:
			return BVCmp(p+"lt", x, y)
		case token.LEQ:
			return BVCmp(p+"le", x, y)
		case token.GTR:
			return BVCmp(p+"gt", x, y)
		case token.GEQ:
			return BVCmp(p+"ge", x, y)
		}
	} else {
		switch op {
		case token.LSS:
			return IntCmp("<", x, y)
		case token.LEQ:
			return IntCmp("<=", x, y)
		case token.GTR:
			return IntCmp(">", x, y)
		case token.GEQ:
			return IntCmp(">=", x, y)
		}
	}
	panic("cmp " + op.String())
}

// Conv converts between Go numeric types.
func (a *Arith) Conv(from, to NumT, x *Term) *Term {
	if from.Float || to.Float {
		if from.Float && to.Float && from.Bits == to.Bits {
			return x
		}
		// int<->float conversions are uninterpreted
		return App(fmt.Sprintf("fconv_%d_%v_%d_%v", from.Bits, from.Float, to.Bits, to.Float), a.Sort(to), x)
	}
	if a.Mode == ModeBV {
		switch {
		case to.Bits == from.Bits:
			return x
		case to.Bits < from.Bits:
			return Extract(to.Bits-1, 0, x)
		case from.Signed:
			return SExt(to.Bits-from.Bits, x)
		default:
			return ZExt(to.Bits-from.Bits, x)
		}
	}
	// int mode: exact two's-complement wrap, expressed with mod by a constant
	if to.Bits >= from.Bits && (to.Signed == from.Signed || (to.Signed && to.Bits > from.Bits)) {
		return x
	}
	if ub, ok := ubOf(x); ok {
		lim := to.Bits
		if to.Signed {
			lim--
		}
		if ub <= lim {
			return x
		}
	}
	m := Const(IntSort, bigPow2(uint(to.Bits)))
	// sign change without narrowing: the operand lies in the range of its own type, so the wrap is
	// a single conditional offset (linear; much easier for the solvers than mod)
	if to.Bits >= from.Bits && from.Signed && !to.Signed {
		return tagBits(Ite(IntCmp("<", x, ConstI(IntSort, 0)), IntOp("+", x, m), x), to.Bits)
	}
	if to.Bits == from.Bits && !from.Signed && to.Signed {
		h := Const(IntSort, bigPow2(uint(to.Bits-1)))
		return Ite(IntCmp(">=", x, h), IntOp("-", x, m), x)
	}
	if !to.Signed {
		return tagBits(IntOp("mod", x, m), to.Bits)
	}
	h := Const(IntSort, bigPow2(uint(to.Bits-1)))
	return IntOp("-", IntOp("mod", IntOp("+", x, h), m), h)
}

// shift amount normalisation (bv mode): Go allows any unsigned width on the right
func (a *Arith) ShiftAmt(yn NumT, xn NumT, y *Term) *Term {
	if a.Mode != ModeBV {
		return y
	}
	if yn.Bits == xn.Bits {
		return y
	}
	if yn.Bits < xn.Bits {
		return ZExt(xn.Bits-yn.Bits, y)
	}
	// wider shift count: saturate
	if y.IsConst() {
		if y.Val.Cmp(big.NewInt(int64(xn.Bits))) >= 0 {
			return ConstI(BV(xn.Bits), int64(xn.Bits))
		}
		return Const(BV(xn.Bits), y.Val)
	}
	lim := ConstI(y.S, int64(xn.Bits))
	return Ite(BVCmp("bvuge", y, lim), ConstI(BV(xn.Bits), int64(xn.Bits)), Extract(xn.Bits-1, 0, y))
}
