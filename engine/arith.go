package main

// Typed Go arithmetic over SMT terms, in one of two modes:
//   bv  : every Go integer is the bit-vector of its width (wrapping semantics, exact)
//   int : every Go integer is an SMT Int; + - * and narrowing conversions raise a
//         no-overflow side condition (an obligation) so machine arithmetic is proved,
//         not assumed, to coincide with mathematical arithmetic.

import (
	"fmt"
	"go/token"
	"go/types"
	"math/big"
)

type Mode int

const (
	ModeBV Mode = iota
	ModeInt
)

func (m Mode) String() string {
	if m == ModeBV {
		return "bv"
	}
	return "int"
}

type NumT struct {
	Bits   int
	Signed bool
	Float  bool
}

var (
	tInt     = NumT{64, true, false}
	tUint64  = NumT{64, false, false}
	tUintptr = NumT{64, false, false}
	tByte    = NumT{8, false, false}
	tInt32   = NumT{32, true, false}
	tUint32  = NumT{32, false, false}
)

func numOf(t types.Type) (NumT, bool) {
	b, ok := t.Underlying().(*types.Basic)
	if !ok {
		return NumT{}, false
	}
	switch b.Kind() {
	case types.Int8:
		return NumT{8, true, false}, true
	case types.Int16:
		return NumT{16, true, false}, true
	case types.Int32:
		return NumT{32, true, false}, true
	case types.Int, types.Int64, types.UntypedInt, types.UntypedRune:
		return NumT{64, true, false}, true
	case types.Uint8:
		return NumT{8, false, false}, true
	case types.Uint16:
		return NumT{16, false, false}, true
	case types.Uint32:
		return NumT{32, false, false}, true
	case types.Uint, types.Uint64, types.Uintptr:
		return NumT{64, false, false}, true
	case types.Float64, types.UntypedFloat:
		return NumT{64, false, true}, true
	case types.Float32:
		return NumT{32, false, true}, true
	}
	return NumT{}, false
}

func (n NumT) Min() *big.Int {
	if !n.Signed {
		return big.NewInt(0)
	}
	return new(big.Int).Neg(new(big.Int).Lsh(big.NewInt(1), uint(n.Bits-1)))
}
func (n NumT) Max() *big.Int {
	if !n.Signed {
		return mask(n.Bits)
	}
	return new(big.Int).Sub(new(big.Int).Lsh(big.NewInt(1), uint(n.Bits-1)), big.NewInt(1))
}

type Arith struct {
	Mode Mode
	// SideCond receives a condition that must hold for the int-mode abstraction to be
	// exact (no overflow); nil in contexts where side conditions are not collected
	// (contract expressions are mathematical in int mode).
	SideCond func(cond *Term, what string)
}

// I is the sort of int / indices / region ids / refs
func (a *Arith) I() *Sort {
	if a.Mode == ModeBV {
		return BV(64)
	}
	return IntSort
}

func (a *Arith) Sort(n NumT) *Sort {
	if a.Mode == ModeBV || n.Float {
		return BV(n.Bits)
	}
	return IntSort
}

func (a *Arith) ByteSort() *Sort { return a.Sort(tByte) }

func (a *Arith) Const(n NumT, v *big.Int) *Term {
	if a.Mode == ModeBV || n.Float {
		return Const(BV(n.Bits), v)
	}
	// normalise into range (constants in Go are always in range when typed)
	return Const(IntSort, v)
}
func (a *Arith) ConstI(n NumT, v int64) *Term { return a.Const(n, big.NewInt(v)) }
func (a *Arith) IConst(v int64) *Term         { return a.ConstI(tInt, v) }

// InRange is the typing fact of a value of type n (trivial in bv mode)
func (a *Arith) InRange(n NumT, x *Term) *Term {
	if a.Mode == ModeBV || n.Float {
		return True
	}
	return And(IntCmp("<=", Const(IntSort, n.Min()), x), IntCmp("<=", x, Const(IntSort, n.Max())))
}

func (a *Arith) side(c *Term, what string) {
	if a.SideCond != nil && !c.IsTrue() {
		a.SideCond(c, what)
	}
}

func (a *Arith) Bin(op token.Token, n NumT, x, y *Term) *Term {
	if n.Float {
		// floats are opaque bit patterns; arithmetic is uninterpreted
		return App("fop_"+tokName(op), x.S, x, y)
	}
	if a.Mode == ModeBV {
		switch op {
		case token.ADD:
			return BVOp("bvadd", x, y)
		case token.SUB:
			return BVOp("bvsub", x, y)
		case token.MUL:
			return BVOp("bvmul", x, y)
		case token.QUO:
			if n.Signed {
				return BVOp("bvsdiv", x, y)
			}
			return BVOp("bvudiv", x, y)
		case token.REM:
			if n.Signed {
				return BVOp("bvsrem", x, y)
			}
			return BVOp("bvurem", x, y)
		case token.AND:
			return BVOp("bvand", x, y)
		case token.OR:
			return BVOp("bvor", x, y)
		case token.XOR:
			return BVOp("bvxor", x, y)
		case token.AND_NOT:
			return BVOp("bvand", x, BVNot(y))
		case token.SHL:
			return BVOp("bvshl", x, y)
		case token.SHR:
			if n.Signed {
				return BVOp("bvashr", x, y)
			}
			return BVOp("bvlshr", x, y)
		}
		panic("bv binop " + op.String())
	}
	// int mode
	var r *Term
	switch op {
	case token.ADD:
		r = IntOp("+", x, y)
	case token.SUB:
		r = IntOp("-", x, y)
	case token.MUL:
		r = IntOp("*", x, y)
	case token.QUO:
		// Go truncates toward zero; SMT div is euclidean. Exact for x >= 0, y > 0.
		a.side(And(IntCmp(">=", x, ConstI(IntSort, 0)), IntCmp(">", y, ConstI(IntSort, 0))), "division operands non-negative (int mode)")
		if y.IsConst() {
			return IntOp("div", x, y)
		}
		return App("udiv", IntSort, x, y)
	case token.REM:
		a.side(And(IntCmp(">=", x, ConstI(IntSort, 0)), IntCmp(">", y, ConstI(IntSort, 0))), "remainder operands non-negative (int mode)")
		if y.IsConst() {
			return IntOp("mod", x, y)
		}
		return App("urem", IntSort, x, y)
	case token.SHL:
		if y.IsConst() && y.Val.IsInt64() && y.Val.Int64() < 63 {
			r = IntOp("*", x, Const(IntSort, new(big.Int).Lsh(big.NewInt(1), uint(y.Val.Int64()))))
		} else {
			return App("ushl", IntSort, x, y)
		}
	case token.SHR:
		if y.IsConst() && y.Val.IsInt64() && y.Val.Int64() < 63 {
			a.side(IntCmp(">=", x, ConstI(IntSort, 0)), "shift operand non-negative (int mode)")
			return IntOp("div", x, Const(IntSort, new(big.Int).Lsh(big.NewInt(1), uint(y.Val.Int64()))))
		}
		return App("ushr", IntSort, x, y)
	case token.AND:
		// x & (2^k-1) == x mod 2^k for x >= 0
		if y.IsConst() {
			m := new(big.Int).Add(y.Val, big.NewInt(1))
			if m.Sign() > 0 && new(big.Int).And(m, y.Val).Sign() == 0 {
				a.side(IntCmp(">=", x, ConstI(IntSort, 0)), "mask operand non-negative (int mode)")
				return IntOp("mod", x, Const(IntSort, m))
			}
		}
		return App("uand", IntSort, x, y)
	case token.OR:
		return App("uor", IntSort, x, y)
	case token.XOR:
		return App("uxor", IntSort, x, y)
	case token.AND_NOT:
		return App("uandnot", IntSort, x, y)
	default:
		panic("int binop " + op.String())
	}
	a.side(a.InRange(n, r), fmt.Sprintf("no overflow in %s on %d-bit %s", op, n.Bits, sgn(n)))
	return r
}

func sgn(n NumT) string {
	if n.Signed {
		return "signed"
	}
	return "unsigned"
}

func tokName(op token.Token) string {
	switch op {
	case token.ADD:
		return "add"
	case token.SUB:
		return "sub"
	case token.MUL:
		return "mul"
	case token.QUO:
		return "div"
	}
	return "op"
}

func (a *Arith) Neg(n NumT, x *Term) *Term {
	if a.Mode == ModeBV {
		return BVNeg(x)
	}
	r := IntOp("-", ConstI(IntSort, 0), x)
	a.side(a.InRange(n, r), "no overflow in negation")
	return r
}

func (a *Arith) Cmp(op token.Token, n NumT, x, y *Term) *Term {
	switch op {
	case token.EQL:
		return Eq(x, y)
	case token.NEQ:
		return Not(Eq(x, y))
	}
	if n.Float {
		return App("fcmp_"+op.String(), BoolSort, x, y)
	}
	if a.Mode == ModeBV {
		p := "bvu"
		if n.Signed {
			p = "bvs"
		}
		switch op {
		case token.LSS:
			return BVCmp(p+"lt", x, y)
		case token.LEQ:
			return BVCmp(p+"le", x, y)
		case token.GTR:
			return BVCmp(p+"gt", x, y)
		case token.GEQ:
			return BVCmp(p+"ge", x, y)
		}
	} else {
		switch op {
		case token.LSS:
			return IntCmp("<", x, y)
		case token.LEQ:
			return IntCmp("<=", x, y)
		case token.GTR:
			return IntCmp(">", x, y)
		case token.GEQ:
			return IntCmp(">=", x, y)
		}
	}
	panic("cmp " + op.String())
}

// Conv converts between Go numeric types.
func (a *Arith) Conv(from, to NumT, x *Term) *Term {
	if from.Float || to.Float {
		if from.Float && to.Float && from.Bits == to.Bits {
			return x
		}
		// int<->float conversions are uninterpreted
		return App(fmt.Sprintf("fconv_%d_%v_%d_%v", from.Bits, from.Float, to.Bits, to.Float), a.Sort(to), x)
	}
	if a.Mode == ModeBV {
		switch {
		case to.Bits == from.Bits:
			return x
		case to.Bits < from.Bits:
			return Extract(to.Bits-1, 0, x)
		case from.Signed:
			return SExt(to.Bits-from.Bits, x)
		default:
			return ZExt(to.Bits-from.Bits, x)
		}
	}
	// int mode: value-preserving conversion required (side condition), except that an
	// explicit wrap of a constant-width is expressed with mod when the source is unsigned
	if to.Bits >= from.Bits && (to.Signed == from.Signed || (to.Signed && to.Bits > from.Bits)) {
		return x
	}
	if !to.Signed && !from.Signed {
		// narrowing unsigned: exact mod
		return IntOp("mod", x, Const(IntSort, new(big.Int).Lsh(big.NewInt(1), uint(to.Bits))))
	}
	a.side(a.InRange(to, x), fmt.Sprintf("conversion to %d-bit %s preserves the value", to.Bits, sgn(to)))
	return x
}

// shift amount normalisation (bv mode): Go allows any unsigned width on the right
func (a *Arith) ShiftAmt(yn NumT, xn NumT, y *Term) *Term {
	if a.Mode != ModeBV {
		return y
	}
	if yn.Bits == xn.Bits {
		return y
	}
	if yn.Bits < xn.Bits {
		return ZExt(xn.Bits-yn.Bits, y)
	}
	// wider shift count: saturate
	if y.IsConst() {
		if y.Val.Cmp(big.NewInt(int64(xn.Bits))) >= 0 {
			return ConstI(BV(xn.Bits), int64(xn.Bits))
		}
		return Const(BV(xn.Bits), y.Val)
	}
	lim := ConstI(y.S, int64(xn.Bits))
	return Ite(BVCmp("bvuge", y, lim), ConstI(BV(xn.Bits), int64(xn.Bits)), Extract(xn.Bits-1, 0, y))
}
