package main

// Contract expression language: Go expression syntax plus
//   a ==> b, a <==> b, c ? x : y, forall k int :: P, exists k int :: P, old(e), \result-free
// Parsed into a small AST, evaluated symbolically by eval.go.

import (
	"fmt"
	"go/constant"
	"go/token"
	"strings"
	"unicode"
)

type Expr interface{}

type EIdent struct{ Name string }
type ELit struct{ V constant.Value }
type ESel struct {
	X   Expr
	Sel string
}
type ECall struct {
	Fun  Expr
	Args []Expr
}
type EIndex struct{ X, I Expr }
type ESlice struct{ X, Lo, Hi Expr }
type EUnary struct {
	Op string
	X  Expr
}
type EBinary struct {
	Op   string
	X, Y Expr
}
type ECond struct{ C, A, B Expr }
type QVar struct{ Name, Type string }
type EQuant struct {
	Forall bool
	Vars   []QVar
	Body   Expr
}

type tok struct {
	k   string // "id","int","str","char","op","eof"
	s   string
	pos int
}

type lexer struct {
	src  string
	toks []tok
}

var ops = []string{"<==>", "==>", "<<", ">>", "&^", "&&", "||", "==", "!=", "<=", ">=", "::", "+", "-", "*", "/", "%", "&", "|", "^", "<", ">", "!", "(", ")", "[", "]", ",", ":", ".", "?", "{", "}"}

func lex(src string) ([]tok, error) {
	var out []tok
	i := 0
	for i < len(src) {
		c := src[i]
		if c == ' ' || c == '\t' || c == '\n' || c == '\r' {
			i++
			continue
		}
		if unicode.IsLetter(rune(c)) || c == '_' || c == '$' || c == '\\' {
			j := i + 1
			for j < len(src) && (unicode.IsLetter(rune(src[j])) || unicode.IsDigit(rune(src[j])) || src[j] == '_' || src[j] == '$') {
				j++
			}
			out = append(out, tok{"id", src[i:j], i})
			i = j
			continue
		}
		if unicode.IsDigit(rune(c)) {
			j := i + 1
			for j < len(src) && (unicode.IsLetter(rune(src[j])) || unicode.IsDigit(rune(src[j])) || src[j] == '_') {
				j++
			}
			out = append(out, tok{"int", src[i:j], i})
			i = j
			continue
		}
		if c == '"' {
			j := i + 1
			for j < len(src) && src[j] != '"' {
				if src[j] == '\\' {
					j++
				}
				j++
			}
			if j >= len(src) {
				return nil, fmt.Errorf("unterminated string at %d", i)
			}
			out = append(out, tok{"str", src[i : j+1], i})
			i = j + 1
			continue
		}
		if c == '\'' {
			j := i + 1
			for j < len(src) && src[j] != '\'' {
				if src[j] == '\\' {
					j++
				}
				j++
			}
			out = append(out, tok{"char", src[i : j+1], i})
			i = j + 1
			continue
		}
		matched := false
		for _, o := range ops {
			if strings.HasPrefix(src[i:], o) {
				out = append(out, tok{"op", o, i})
				i += len(o)
				matched = true
				break
			}
		}
		if !matched {
			return nil, fmt.Errorf("unexpected character %q at %d in %q", c, i, src)
		}
	}
	out = append(out, tok{"eof", "", len(src)})
	return out, nil
}

type parser struct {
	toks []tok
	p    int
	src  string
}

func ParseExpr(src string) (e Expr, err error) {
	toks, err := lex(src)
	if err != nil {
		return nil, err
	}
	ps := &parser{toks: toks, src: src}
	defer func() {
		if r := recover(); r != nil {
			if pe, ok := r.(parseErr); ok {
				err = fmt.Errorf("%s in %q", string(pe), src)
				return
			}
			panic(r)
		}
	}()
	e = ps.expr(0)
	if ps.peek().k != "eof" {
		ps.fail("unexpected token %q", ps.peek().s)
	}
	return e, nil
}

type parseErr string

func (p *parser) fail(f string, a ...interface{}) {
	panic(parseErr(fmt.Sprintf(f, a...) + fmt.Sprintf(" at offset %d", p.peek().pos)))
}
func (p *parser) peek() tok { return p.toks[p.p] }
func (p *parser) next() tok { t := p.toks[p.p]; p.p++; return t }
func (p *parser) isOp(s string) bool {
	t := p.peek()
	return t.k == "op" && t.s == s
}
func (p *parser) expect(s string) {
	if !p.isOp(s) {
		p.fail("expected %q, found %q", s, p.peek().s)
	}
	p.p++
}

// precedence levels
func binPrec(op string) int {
	switch op {
	case "<==>":
		return 1
	case "==>":
		return 2
	case "?":
		return 3
	case "||":
		return 4
	case "&&":
		return 5
	case "==", "!=", "<", "<=", ">", ">=":
		return 6
	case "+", "-", "|", "^":
		return 7
	case "*", "/", "%", "<<", ">>", "&", "&^":
		return 8
	}
	return 0
}

func (p *parser) expr(minPrec int) Expr {
	lhs := p.unary()
	for {
		t := p.peek()
		if t.k != "op" {
			return lhs
		}
		pr := binPrec(t.s)
		if pr == 0 || pr < minPrec {
			return lhs
		}
		p.p++
		switch t.s {
		case "==>":
			rhs := p.expr(pr) // right assoc
			lhs = EBinary{"==>", lhs, rhs}
		case "?":
			a := p.expr(pr + 1)
			p.expect(":")
			b := p.expr(pr)
			lhs = ECond{lhs, a, b}
		default:
			rhs := p.expr(pr + 1)
			lhs = EBinary{t.s, lhs, rhs}
		}
	}
}

func (p *parser) unary() Expr {
	t := p.peek()
	if t.k == "op" {
		switch t.s {
		case "!", "-", "^", "*", "&", "+":
			p.p++
			x := p.unary()
			return EUnary{t.s, x}
		}
	}
	return p.postfix(p.primary())
}

func (p *parser) primary() Expr {
	t := p.next()
	switch t.k {
	case "id":
		if t.s == "forall" || t.s == "exists" {
			var vars []QVar
			for {
				var names []string
				for {
					n := p.next()
					if n.k != "id" {
						p.fail("expected bound variable name")
					}
					names = append(names, n.s)
					if p.isOp(",") {
						p.p++
						continue
					}
					break
				}
				ty := p.next()
				if ty.k != "id" {
					p.fail("expected type of bound variable")
				}
				for _, n := range names {
					vars = append(vars, QVar{n, ty.s})
				}
				if p.isOp("::") {
					p.p++
					break
				}
				p.fail("expected :: after quantified variables")
			}
			body := p.expr(0)
			return EQuant{t.s == "forall", vars, body}
		}
		return EIdent{t.s}
	case "int":
		s := strings.ReplaceAll(t.s, "_", "")
		v := constant.MakeFromLiteral(s, token.INT, 0)
		if v.Kind() == constant.Unknown {
			p.fail("bad integer literal %q", t.s)
		}
		return ELit{v}
	case "str":
		return ELit{constant.MakeFromLiteral(t.s, token.STRING, 0)}
	case "char":
		return ELit{constant.MakeFromLiteral(t.s, token.CHAR, 0)}
	case "op":
		if t.s == "(" {
			e := p.expr(0)
			p.expect(")")
			return e
		}
		if t.s == "[" && p.isOp("]") {
			// slice type expression []T
			p.p++
			return EUnary{"[]", p.postfix(p.primary())}
		}
	}
	p.p--
	p.fail("unexpected token %q", t.s)
	return nil
}

func (p *parser) postfix(x Expr) Expr {
	for {
		t := p.peek()
		if t.k != "op" {
			return x
		}
		switch t.s {
		case ".":
			p.p++
			n := p.next()
			if n.k != "id" {
				p.fail("expected selector name")
			}
			x = ESel{x, n.s}
		case "(":
			p.p++
			var args []Expr
			for !p.isOp(")") {
				args = append(args, p.expr(0))
				if p.isOp(",") {
					p.p++
				}
			}
			p.expect(")")
			x = ECall{x, args}
		case "[":
			p.p++
			var lo, hi Expr
			if !p.isOp(":") {
				lo = p.expr(0)
			}
			if p.isOp(":") {
				p.p++
				if !p.isOp("]") {
					hi = p.expr(0)
				}
				p.expect("]")
				x = ESlice{x, lo, hi}
			} else {
				p.expect("]")
				x = EIndex{x, lo}
			}
		default:
			return x
		}
	}
}

func exprString(e Expr) string {
	switch x := e.(type) {
	case EIdent:
		return x.Name
	case ELit:
		return x.V.ExactString()
	case ESel:
		return exprString(x.X) + "." + x.Sel
	case ECall:
		var as []string
		for _, a := range x.Args {
			as = append(as, exprString(a))
		}
		return exprString(x.Fun) + "(" + strings.Join(as, ", ") + ")"
	case EIndex:
		return exprString(x.X) + "[" + exprString(x.I) + "]"
	case ESlice:
		lo, hi := "", ""
		if x.Lo != nil {
			lo = exprString(x.Lo)
		}
		if x.Hi != nil {
			hi = exprString(x.Hi)
		}
		return exprString(x.X) + "[" + lo + ":" + hi + "]"
	case EUnary:
		return x.Op + exprString(x.X)
	case EBinary:
		return "(" + exprString(x.X) + " " + x.Op + " " + exprString(x.Y) + ")"
	case ECond:
		return "(" + exprString(x.C) + " ? " + exprString(x.A) + " : " + exprString(x.B) + ")"
	case EQuant:
		q := "exists"
		if x.Forall {
			q = "forall"
		}
		var vs []string
		for _, v := range x.Vars {
			vs = append(vs, v.Name+" "+v.Type)
		}
		return "(" + q + " " + strings.Join(vs, ", ") + " :: " + exprString(x.Body) + ")"
	}
	return fmt.Sprintf("%v", e)
}
