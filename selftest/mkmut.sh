#!/bin/bash
# selftest/mkmut.sh <name> "<props>"   -- record the current uncommitted change of /repo's
# non-contract sources as a mutant and restore the working tree. Refuses when contract
# files are dirty (they must be committed first).
set -e
cd /repo
if git status --short | grep -q "_verif.go\|verifspec"; then echo "commit contract files first"; exit 1; fi
git diff > /tmp/m.$$.diff
[ -s /tmp/m.$$.diff ] || { echo "EMPTY mutant $1"; exit 1; }
(echo "# props: $2"; cat /tmp/m.$$.diff) > /verif/selftest/mutants/$1.patch
rm -f /tmp/m.$$.diff
git checkout -- .
echo "recorded $1"
