#!/bin/bash
# Must-fail corpus: each mutant is applied to a scratch copy of /repo; the named check must
# report a VIOLATION (exit 1). Usage: selftest/run.sh [pattern]
set -u
cd "$(dirname "$0")/.."
PAT=${1:-}
fail=0; n=0
for m in selftest/mutants/*.patch; do
  [ -e "$m" ] || continue
  case "$m" in *"$PAT"*) ;; *) continue;; esac
  props=$(sed -n 's/^# props: //p' "$m" | head -1)
  d=$(mktemp -d /tmp/govc-mut-XXXXXX)
  rsync -a --exclude .git "${VERIF_REPO_SRC:-/repo}/" "$d/"
  if ! (cd "$d" && patch -p1 -s < "$OLDPWD/$m"); then echo "MUTANT-BROKEN $m (patch does not apply)"; fail=1; rm -rf "$d"; continue; fi
  for p in $props; do
    n=$((n+1))
    out=$(VERIF_REPO="$d" VERIF_EVIDENCE_DIR="$d/.ev" VERIF_REPLAY_DIR="$d/.rp" ./check "$p" quick 2>&1); rc=$?
    if grep -q "^# expect: engine-error" "$m"; then
      # vacuity canary: a contradictory assumed contract must be reported as an engine error, not as success
      if [ $rc -eq 2 ] && echo "$out" | grep -q "^ENGINE-ERROR: vacuous"; then
        echo "killed   $(basename $m) by $p: $(echo "$out" | grep -m1 '^ENGINE-ERROR' | cut -c1-160)"
      else
        echo "SURVIVED $(basename $m) under $p (exit $rc; vacuity not reported)"; fail=1
      fi
      continue
    fi
    if [ $rc -eq 1 ] && echo "$out" | grep -q "^VIOLATION property=$p"; then
      echo "killed   $(basename $m) by $p: $(echo "$out" | grep -m1 '^  obligation' | cut -c1-160)"
    else
      echo "SURVIVED $(basename $m) under $p (exit $rc)"; echo "$out" | tail -3; fail=1
    fi
  done
  rm -rf "$d"
done
echo "selftest: $n mutant checks, fail=$fail"
exit $fail
