#!/usr/bin/env python3
"""Regenerates MANIFEST.json from the table below (kept next to the checks so that the
claims and the machinery change together)."""
import json, subprocess, os

HOOK_COMMITS = subprocess.run(["git", "-C", "/repo", "log", "--format=%H %s"], capture_output=True, text=True).stdout.strip().split("\n")
hook_shas = [l.split()[0] for l in HOOK_COMMITS if " verif:" in l]

TRUST = ("Trusted: go/ssa's translation of Go; the SMT solvers (z3 5.1.0, z3 4.8.12, cvc5 1.0: one solver's unsat discharges an obligation); govc's own "
         "memory model and builtin semantics (len/cap/copy/append/make, string conversions); extern/iface contracts listed in the evidence file; "
         "64-bit little-endian target; allocation succeeds, sizes <= 2^47; sequential semantics; termination only where a decreases clause is given.")

CLAIMS = {
    "C01": dict(
        text="Proof: every in-place writer, appending writer, length function and buffer reader of thrift.Binary is verified against one written-down Thrift "
             "Binary encoding predicate (big-endian words, 4-byte length prefix + bytes) for all values, all buffer contents and all buffer lengths; "
             "writers additionally against their frame (only the advertised bytes are written). Unbounded: parameters are symbolic.",
        note="Stream writer/reader halves (BufferWriter/BufferReader over bufiox) are not yet under contract in this check. " + TRUST,
        technique="function contracts (requires/ensures/assigns) on the real Go code; weakest-precondition style VCs generated from go/ssa; discharged by z3/cvc5",
        design="5 C01"),
}

NOT_YET = "not claimed yet: contracts for the functions this property depends on are still under construction (see DESIGN.md section 5 for the plan)"

NOT_APPLICABLE = {
    "C14": "quantifies over goroutine schedules; a sequential function-contract verifier has no interleaving semantics (DESIGN.md section 5, C14). "
           "The sequential premises (Get assigns nothing, no package-level writes, no use after free) are proved under C07/C09 and reported there.",
}

props = [json.loads(l) for l in open(os.path.join(os.path.dirname(__file__), "properties.jsonl"))]
checks = []
na = []
for p in props:
    pid = p["id"]
    if pid in CLAIMS:
        c = CLAIMS[pid]
        checks.append({
            "property_id": pid,
            "quick_cmd": f"./check {pid} quick",
            "thorough_cmd": f"./check {pid} thorough",
            "evidence_file": f"/verif/evidence/{pid}.json",
            "replay_cmd_template": "./check replay {path}",
            "engine": "govc",
            "level_claimed": {"category": "proof", "text": c["text"], "design_ref": c["design"]},
            "level_note": c["note"],
            "technique": c["technique"],
        })
    else:
        na.append({"property_id": pid, "reason": NOT_APPLICABLE.get(pid, NOT_YET)})

manifest = {
    "version": 1,
    "setup_cmd": "./check build",
    "hooks": {
        "guard": "verif",
        "enable": "-tags verif (adds comment-only contract files *_verif.go and the spec package internal/verifspec; nothing else changes)",
        "baseline_off_cmd": "cd /repo && GOFLAGS=-mod=mod GOPROXY=off GOSUMDB=off GOTOOLCHAIN=local go test -vet=off -count=1 ./...",
        "source_commits": hook_shas,
        "add_only": True,
    },
    "engines": [{"name": "govc", "path": "/verif/engine", "serves_properties": sorted(CLAIMS.keys()),
                 "kind_free_text": "contract-based deductive verifier for Go written for this task: go/ssa -> verification conditions -> z3/cvc5"}],
    "checks": checks,
    "not_applicable": na,
    "notes": "Contracts live in /repo as //@ comments in files guarded by //go:build verif; spec functions are real Go in internal/verifspec.",
}
json.dump(manifest, open(os.path.join(os.path.dirname(__file__), "MANIFEST.json"), "w"), indent=1)
print("claimed:", sorted(CLAIMS.keys()), "not claimed:", [x["property_id"] for x in na])
