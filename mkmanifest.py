#!/usr/bin/env python3
"""Regenerates MANIFEST.json from the table below (kept next to the checks so that the
claims and the machinery change together)."""
import json, subprocess, os

HOOK_COMMITS = subprocess.run(["git", "-C", "/repo", "log", "--format=%H %s"], capture_output=True, text=True).stdout.strip().split("\n")
hook_shas = [l.split()[0] for l in HOOK_COMMITS if " verif:" in l]

TRUST = ("Trusted: go/ssa's translation of Go; the SMT solvers (z3 5.1.0, z3 4.8.12, cvc5 1.0: one solver's unsat discharges an obligation); govc's own "
         "memory model and builtin semantics (len/cap/copy/append/make, string conversions); extern/iface contracts listed in the evidence file; "
         "64-bit little-endian target; allocation succeeds, sizes <= 2^47; sequential semantics; termination only where a decreases clause is given.")

TECH = "function contracts (requires/ensures/assigns, loop invariants, decreases) on the real Go code; VCs generated from go/ssa by forward symbolic execution; discharged by z3/cvc5; counterexamples replayed with go test -overlay"

CLAIMS = {
    "C01": dict(
        text="Proof: every in-place writer, appending writer, length function and buffer reader of thrift.Binary is verified against one written-down Thrift "
             "Binary encoding predicate (big-endian words, 4-byte length prefix + bytes) for all values, all buffer contents and all buffer lengths; "
             "writers additionally against their frame (only the advertised bytes are written). Unbounded: parameters are symbolic.",
        note="The stream writer/reader halves are proved against the bufiox.Reader / bufiox.Writer interface contracts (ghost stream), i.e. for every fragmentation at once; the proofs that DefaultReader/DefaultWriter "
             "refine those contracts (C04/C05) are run as part of this check too. " + TRUST,
        design="5 C01"),
    "C02": dict(
        text="Proof: Binary.Skip / skipType / skipstr return exactly the length given by the Thrift Binary grammar (internal/verifspec ValLenD, an executable "
             "oracle written from the protocol description) for every byte string, type byte and nesting budget; loops by invariants, recursion by the callee contract, "
             "fast paths by two induction lemmas that are themselves verified.",
        note="Binary.Skip is proved exactly equal to the grammar; the stream skipper and the generic skip decoder by the sandwich the property states (exact agreement at budget 63, acceptance only of what the "
             "grammar accepts at 64); BytesSkipDecoder and SkipDecoder are proved to refine the SkipDecoderIface contract and their Next returns exactly the value's bytes and consumes exactly its length. "
             "ReaderSkipDecoder (io.Reader-backed) is proved against the io.Reader interface contract (any fragmentation; data delivered together with the error - D9 fixed); its pooled construction/Release (sync.Pool) is not under contract. " + TRUST,
        design="5 C02"),
    "C03": dict(
        text="Proof of absence of run-time panics (index, slice bounds, nil, division, type assertion, unsafe reads inside the allocation) and of the extent clause "
             "(success implies consumed <= len(input)) for all byte strings and all 256 type bytes, for the thrift.Binary readers, ReadMessageBegin and Skip.",
        note="Covered: thrift.Binary readers, ReadMessageBegin, Skip, the stream reader and skippers, skip decoders, ApplicationException.FastRead, FastUnmarshal, UnmarshalFastMsg. "
             "Also covered since: Base/BaseResp FastRead, unknown-field conversion, TTHeader decode, StrMap.Get. " + TRUST,
        design="5 C03"),
    "C04": dict(
        text="Proof that DefaultReader (io.Reader-backed) and BytesReader refine the bufiox.Reader interface contract, whose ghost state is the unread stream $u: Next/Peek return exactly the next n bytes of "
             "the stream or an error and then consume nothing, Peek never advances, Skip advances by exactly n, ReadBinary copies min(len(bs), remaining) stream bytes, reports that count, and reports fewer only "
             "with an error; ReadLen is the count consumed since Release; Release keeps the unread stream. The source is the io.Reader interface contract: any fragmentation, zero-length reads, data "
             "delivered together with the error. acquireSlow (growth, compaction, read loop) is proved against the representation invariant: buffered-but-unread bytes are exactly the stream bytes preceding the source's future; "
             "the error that surfaces is the source's own. Loops by invariants and decreases clauses (termination of the read loop included).",
        note="Assumes a source that does not stall forever: a nil error from Read comes with at least one byte unless len(p)==0 (otherwise the reader reports io.ErrNoProgress after 100 consecutive empty reads, "
             "proved only as 'a non-nil error'). The choice of ghost stream for NewBytesReader (the caller's bytes are the stream) is a trusted clause. "
             "Requests are limited to n <= 2^46. Two genuine defects were found and fixed (D10, D7). " + TRUST,
        design="5 C04"),
    "C05": dict(
        text="Proof for DefaultWriter and BytesWriter against a representation invariant that says which byte backs each unflushed stream position (the first parked buffer longer than the position, else the current buffer; "
             "parked lengths non-decreasing, all allocations distinct): Malloc returns exactly the n bytes backing the next n positions without writing memory and keeps every earlier backing (growth parks the old buffer, never copies), "
             "WriteBinary appends a copy of the payload, WrittenLen is the unflushed length; Flush hands the sink, in exactly one Write, the unflushed stream with the current content of every backing byte (loop invariant of the stitching loop), "
             "then WrittenLen is 0; a sink error is returned, stored and returned by every later Malloc/WriteBinary/Flush with nothing changed; for a bytes writer the flushed buffer with that content is published through the caller's pointer. "
             "All sizes, any number of growths (quantified invariants, no bound).",
        note="The sink is the io.Writer interface contract with a ghost log (number of Writes, bytes of the last Write); concatenation over several flushes is the composition of per-Flush contracts, not a single theorem. "
             "The Writer interface clauses about $lastchunk/$prevchunk/$nchunks are ghost definitions (history of handed-out chunks) and are not proved of DefaultWriter. Requests above 2^47 bytes are assumed away with allocation failure. " + TRUST,
        design="5 C05"),
    "C09": dict(
        text="Proof by frames and ghost pool state (per byte region: live-from-pool / freed): Next/Peek/Skip/ReadBinary/acquire* of the reader write no byte below len(buf) (handed-out slices live there or in parked buffers, which are never written), "
             "free nothing (mcache.Free is outside their frame) and park a replaced pool buffer; Release frees exactly the reader's own live pool regions (each once: distinctness invariant) and drops every reference to them; the caller's slice of a bytes reader is marked read-only "
             "for every cap > 0 and then never freed, parked or written (fakeIOReader.Read assigns nothing). Writer: Malloc/WriteBinary never write handed-out bytes nor free; regions are distinct index ranges of one allocation or distinct allocations; Flush frees only own live pool regions and never for a bytes writer (cache disabled), "
             "WriteBinary payloads are only read. mcache.Free requires a live pool region, so freeing caller memory or freeing twice cannot verify.",
        note="Sequential ownership only: exclusivity of a region obtained from the pool (sync.Pool) and the behaviour of mcache are trusted extern contracts; 'never read or written again after recycling' is proved through the invariants (every reference the object keeps is to a non-freed region) rather than by a check on every memory access. "
             "ReaderSkipDecoder: Next returns exactly the value's bytes in its own pooled buffer, growSlow copies before it recycles the old buffer and only ever frees its own live pool region; that a result stays valid only until the next Next is the documented contract and is not a proved lifetime property. " + TRUST,
        design="5 C09"),
    "C07": dict(
        text="Proof for the read side, relative to the table as it is: StrMap.Get (generic, verified once for every value type) never fails on any table whose stored indices are in range, answers absent on an empty or never loaded map (D6 fixed), "
             "and returns exactly what a scan of the slot run finds - present iff some item of the run starting at hashtable[hash(s) % slots] has a key equal to s, with the value of the first such item; Str2Str.Get is that answer with the value fetched from the string store "
             "(a key whose value is the empty string is present); Len and Item; StrStore.Get returns the stored bytes without copying; a Str2Str load with mismatching slice lengths is an error and touches nothing (frame).",
        note="StrMap.LoadFromSlice itself is verified for safety (no panic, no overflow for up to 2^30 keys of up to 4 GiB), its error case, its frame and - from the TRUSTED contract of makeHashtable (sort.Sort and floating point arithmetic are outside the verifier's subset) - the structure of the rebuilt table (slots in range, items sorted by slot, hashtable[s] the first item of slot s). "
             "NOT proved: that the rebuilt table holds exactly the given pairs, each in the slot its key hashes to (the loop invariants establish it per item before the sort, but the forall-exists chain through the permutation is beyond the solvers), hence 'every loaded key returns its value' and reload behaviour are not decided - only that Get cannot find anything that is not in the table and cannot miss anything in the slot run. "
             "maphash.String is an uninterpreted function of the string's content (the seed is fixed per map); StrStore.Load has a trusted frame contract; LoadFromMap (map iteration) is not under contract. " + TRUST,
        design="8.2 C07"),
    "C08": dict(
        text="Proof: the buffer skipper agrees with the grammar in both directions: success iff the grammar says a complete well-formed value is present, with the exact extent; "
             "truncation / unknown type, negative size and exhausted nesting budget (64) each yield an error; recursion is bounded (decreases maxdepth).",
        note="Same functions as C02. Nesting budget semantics are those of ValLenD: containers, structs and unknown-typed values consume budget, scalars and strings do not. " + TRUST,
        design="5 C08"),
    "C12": dict(
        text="Proof: MarshalFastMsg / UnmarshalFastMsg against the FastCodec interface contract (any payload struct): empty method is an error; otherwise the envelope encoding followed by exactly the "
             "payload's advertised length, the payload written into / read from exactly the bytes after the envelope; an EXCEPTION-typed message never touches the caller's struct and surfaces as an "
             "application exception; BufferWriter/BufferReader envelope functions over the bufiox interface contracts. Also: WriteMessageBegin / AppendMessageBegin produce the strict-version envelope encoding for every name, type and sequence id; Binary.ReadMessageBegin decodes exactly that "
             "encoding, rejects every first word without the version marker as BAD_VERSION and every truncation with an error, and reports the exact consumed length.",
        note="ApplicationException.FastRead is additionally proved to be the exact inverse of FastWrite on canonical encodings (message and type id), and the round trip is a machine-checked lemma (lemmaAppExRoundTrip); for non-canonical field orders only extent and safety are specified, so the surfaced exception's id/text are tied to the payload for canonical payloads. " + TRUST,
        design="5 C12"),
    "C13": dict(
        text="Proof for the decoding half (bytes -> tree), for every byte string: ConvertUnknownFields / readUnknownField never panic, terminate (measure: remaining bytes), report a consumed length within the input, and build nodes that carry the id and type they were decoded for, "
             "with KeyType/ValType set only where meaningful (D5 fixed: a nested struct member no longer inherits the tags of the member before it); list/set elements have the declared element type and ids 0..n-1, the flattened map slice holds key-typed nodes at even and value-typed nodes at odd positions, struct members obey the tag discipline.",
        note="NOT proved: the encoding half (UnknownFieldsLength, WriteUnknownFields and the round trip). They need a recursive well-typedness predicate over trees of interface-boxed slices, which the contract language (non-recursive predicates) cannot state; so 'write-then-convert' and 'length equals byte count' are not decided. "
             "Scalar values inside the nodes are not tied to the input bytes beyond what the reader contracts of C01 give per call. " + TRUST,
        design="8.2 C13"),
    "C15": dict(
        text="Proof: WriteBinaryNocopy / WriteStringNocopy are byte-identical to the copying writers when no direct writer is attached or the value is below the 4096 threshold; otherwise they "
             "write exactly the 4-byte length word, return 4, and hand exactly the value with remainCap = len(buf)-4 to the direct writer (ghost log of the NocopyWriter interface contract); "
             "the no-copy length functions equal the copying ones. Both sides of the threshold are one symbolic length.",
        note="Struct level: Base/BaseResp.FastWriteNocopy advance by exactly what each field writer returns and cause one direct write per large string field (nil or empty Extra only). " + TRUST,
        design="5 C15"),
    "C16": dict(
        text="Proof: Binary.ReadBinary / ReadString return a value whose backing memory is fresh (not allocated before the call, hence disjoint from the input and from every earlier result) "
             "with content equal to the input bytes, under both settings of the span cache (the flag is an unconstrained global in the VC); likewise the stream reader's results and the method names returned by ReadMessageBegin / UnmarshalFastMsg.",
        note="The span allocator itself is a dependency with a trusted contract (Copy returns a [:n:n] slice disjoint from everything handed out before). The stream reader (BufferReader.ReadBinary/ReadString) and the decoded message names (ReadMessageBegin, UnmarshalFastMsg) are covered by the same freshness clause. " + TRUST,
        design="5 C16"),
    "C17": dict(
        text="Proof: every failure of the thrift.Binary readers, ReadMessageBegin and Skip is the predeclared protocol exception for its cause: INVALID_DATA for truncation and unknown types, "
             "NEGATIVE_SIZE, BAD_VERSION, DEPTH_LIMIT; the type ids of the predeclared errors come from symbolically executing the package initialiser.",
        note="For the stream reader every failure is a protocol exception that is, or wraps, exactly the error the underlying bufiox.Reader reported (ghost $lasterr). Objects created by the package initialiser are assumed not to be mutated afterwards. " + TRUST,
        design="5 C17"),
    "C06": dict(
        text="Proof of the layout and framing arithmetic of TTHeader encoding over the bufiox.Writer interface contract (every writer, every buffer growth): on success Encode appended exactly 14 + size "
             "bytes with size a multiple of 4 (zero padding) and at least 4, the 14-byte meta block holds magic+flags, the sequence id and size/4, writeKVInfo reports exactly the bytes it appended, "
             "every 2-byte/4-byte length prefixed string is prefix + bytes. Decode (see C10) reads HeaderLen == 14 + declared size and PayloadLen == total + 4 - HeaderLen, so the lengths agree.",
        note="Key/value map contents (and therefore the full parameter round trip, section order and the uint16 casts of counts / string lengths) are NOT proved: Go maps are abstracted to their length "
             "and range over a map is an arbitrary number of arbitrary entries. The upper bound size <= 65536 is proved for sizes below 2^32 (the code compares after a uint32 conversion). "
             "EncodeToBytes is proved for the length of the returned slice only (the chunk contents are not tied to the flushed buffer, see C05 note); DecodeFromBytes is proved like Decode with the stream being exactly the given bytes, which it never writes. " + TRUST,
        design="5 C06"),
    "C10": dict(
        text="Proof over the bufiox.Reader interface contract (every fragmentation): Decode never panics, consumes 0, 14 or exactly 14 + declared size bytes, succeeds only if the magic matches, the declared "
             "size 4*field (as a non-wrapping number) lies in 2..65536, the stream holds that many bytes, the protocol id is supported and the transform count fits; on success HeaderLen == 14 + declared, "
             "PayloadLen == total + 4 - HeaderLen, flags / sequence id / protocol id are the header's. readKVInfo and the section readers are proved exactly equal to the info-section grammar "
             "(internal/verifspec InfoOK): success iff every section is complete, for every byte string.",
        note="Decode / DecodeFromBytes are characterised completely: given a valid meta block, enough bytes, a supported protocol id and a fitting transform count, they succeed exactly when the info section of the stream is well formed by the grammar (this uses the content-congruence instances for spec functions, listed as an assumption). Map contents are not modelled. "
             "DecodeFromBytes: same clauses with the stream being exactly the given bytes. " + TRUST,
        design="5 C10"),
    "C11": dict(
        text="Proof for ApplicationException: BLength equals the bytes FastWrite/FastWriteNocopy produce, which are the documented field encodings; FastRead(FastWrite(x)) == x (machine-checked round-trip lemma); FastRead never panics, consumes exactly the struct extent "
             "given by the grammar (unknown or differently-typed fields of any type are skipped with their exact length) and succeeds iff the grammar accepts; FastMarshal/FastUnmarshal over the FastCodec interface contract.",
        note="Base / BaseResp: BLength, FastWrite, FastWriteNocopy are proved equal and byte-exact for a nil or empty Extra map (Go maps are abstracted to their length); FastRead is proved for safety, extent on success and frame; a value is decoded into a struct member only when both field id and type are the member's (call-site assertions, exact 16/32-bit arithmetic), everything else is skipped; the decoded values themselves are those of the reader contracts per call, not restated as a postcondition of FastRead. " + TRUST,
        design="5 C11"),
    "C18": dict(
        text="Proof (loop-free, complete for all type ids, messages and prefixes): PrependError preserves the exception kind (transport / protocol / application; a foreign value exposing TypeId becomes an "
             "application exception; anything else stays a plain error) and the type id, and the new message is the prefix followed by the original text; NewProtocolExceptionWithErr is the identity "
             "on protocol exceptions and otherwise wraps with UNKNOWN_PROTOCOL_EXCEPTION, Msg == err.Error(), Unwrap() == err; ProtocolException.Is matches on (TypeId, Error) equality and otherwise "
             "exactly when errors.Is(cause, target) does.",
        note="Error()/TypeId() of foreign error values are modelled as pure ghost attributes ($errtext, $typeid); errors.Is is an uninterpreted deterministic function; the default text of an "
             "ApplicationException with an empty message (map lookup / Sprintf) is not specified, so the message clause for the three Thrift kinds is claimed for non-empty messages. "
             "PrependError requires a non-nil dynamic value (a typed nil pointer in the interface panics in the real code too). " + TRUST,
        design="5 C18"),
    "C19": dict(
        text="Proof: NewBufferTransport returns the very object it was given (same identity, first-field layout), RemainingBytes equals the buffer's Len(), Close resets it; NewDefaultTransport dispatches on "
             "*bytes.Buffer; defaultTransport.RemainingBytes is the wrapped object's positive ReadableLen or max uint64; CheckTStruct/ThriftRead/ThriftWrite return the specific not-registered error "
             "when unset and otherwise exactly the result of the registered callback applied to the given arguments.",
        note="bytes.Buffer itself is a dependency (Len/Reset have trusted ghost contracts): histories over the buffer are stdlib behaviour; what is proved is that the bridge adds nothing in between. "
             "Calls through function values are modelled as deterministic functions of their arguments. " + TRUST,
        design="5 C19"),
    "C20": dict(
        text="Proof: BinaryToString / StringToBinary (unsafex_go121.go, the file built by the installed toolchain) keep length and content for every input including nil and empty, share the "
             "argument's memory (same region and offset) and StringToBinary returns cap == len.",
        note="Follows from the built-in semantics of unsafe.String/StringData/Slice/SliceData in the verifier, which are trusted; unsafex_go100.go is excluded by its build tag and not verified. " + TRUST,
        design="5 C20"),
}
for c in CLAIMS.values():
    c.setdefault("technique", TECH)

NOT_YET = "not claimed yet: contracts for the functions this property depends on are still under construction (see DESIGN.md section 5 for the plan)"

NOT_APPLICABLE = {
    "C14": "quantifies over goroutine schedules; a sequential function-contract verifier has no interleaving semantics (DESIGN.md section 5, C14). "
           "The sequential premises (Get assigns nothing, no package-level writes, no use after free) are proved under C07/C09 and reported there.",
}

props = [json.loads(l) for l in open(os.path.join(os.path.dirname(__file__), "properties.jsonl"))]
checks = []
na = []
for p in props:
    pid = p["id"]
    if pid in CLAIMS:
        c = CLAIMS[pid]
        checks.append({
            "property_id": pid,
            "quick_cmd": f"./check {pid} quick",
            "thorough_cmd": f"./check {pid} thorough",
            "evidence_file": f"/verif/evidence/{pid}.json",
            "replay_cmd_template": "./check replay {path}",
            "engine": "govc",
            "level_claimed": {"category": "proof", "text": c["text"], "design_ref": c["design"]},
            "level_note": c["note"],
            "technique": c["technique"],
        })
    else:
        na.append({"property_id": pid, "reason": NOT_APPLICABLE.get(pid, NOT_YET)})

manifest = {
    "version": 1,
    "setup_cmd": "./check build",
    "hooks": {
        "guard": "verif",
        "enable": "-tags verif (adds comment-only contract files *_verif.go and the spec package internal/verifspec; nothing else changes)",
        "baseline_off_cmd": "cd /repo && GOFLAGS=-mod=mod GOPROXY=off GOSUMDB=off GOTOOLCHAIN=local go test -vet=off -count=1 ./...",
        "source_commits": hook_shas,
        "add_only": True,
    },
    "engines": [{"name": "govc", "path": "/verif/engine", "serves_properties": sorted(CLAIMS.keys()),
                 "kind_free_text": "contract-based deductive verifier for Go written for this task: go/ssa -> verification conditions -> z3/cvc5"}],
    "checks": checks,
    "not_applicable": na,
    "notes": "Contracts live in /repo as //@ comments in files guarded by //go:build verif; spec functions are real Go in internal/verifspec.",
}
json.dump(manifest, open(os.path.join(os.path.dirname(__file__), "MANIFEST.json"), "w"), indent=1)
print("claimed:", sorted(CLAIMS.keys()), "not claimed:", [x["property_id"] for x in na])
